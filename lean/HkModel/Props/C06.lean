import HkModel.Model.Dispatch
import Mathlib.Tactic.Linarith
import Mathlib.Tactic.Positivity
/-!
  C06 — push outcome classification, bounded retry with back-off, DLQ.  Property theorems.
-/
namespace Hk.Dispatch

/-- Total classification, stated outright (every status in ℤ, every error kind, every attempt). -/
theorem classify_spec (r : Res) (attempt max : Int) :
    classify r attempt max =
      match r with
      | .status n =>
          if 200 ≤ n ∧ n < 300 then .ack
          else if n = 408 ∨ n = 429 ∨ 500 ≤ n then (if attempt ≤ max then .retry else .dead "max_retries")
          else .dead "no_retry"
      | .err => if attempt ≤ max then .retry else .dead "max_retries"
      | .policyDenied => .dead "policy_denied" := by
  cases r with
  | status n =>
    simp only [classify, isSuccess, shouldRetry, Bool.and_eq_true, Bool.or_eq_true, decide_eq_true_eq, beq_iff_eq,
      ge_iff_le]
    have hne : ¬ (Res.status n = Res.policyDenied) := by simp
    simp only [hne, ite_false]
    split_ifs <;> first | rfl | (exfalso; omega)
  | err =>
    simp only [classify, isSuccess, shouldRetry]
    have hne : (Res.err == Res.policyDenied) = false := by decide
    simp only [hne, Bool.true_and, decide_eq_true_eq]
    split_ifs <;> simp_all
  | policyDenied => simp [classify, isSuccess, shouldRetry]

/-- 1xx and 3xx answers (and every 4xx other than 408/429) are never success. -/
theorem non2xx_never_success (n : Int) (attempt max : Int) (h : n < 200 ∨ 300 ≤ n) :
    classify (.status n) attempt max ≠ .ack := by
  rw [classify_spec]
  simp only
  have h1 : ¬ (200 ≤ n ∧ n < 300) := by omega
  simp only [h1, ite_false]
  split_ifs <;> simp

theorem other_4xx_dead_no_retry (n attempt max : Int) (h2 : n < 500) (h3 : n < 200 ∨ 300 ≤ n)
    (h4 : n ≠ 408) (h5 : n ≠ 429) : classify (.status n) attempt max = .dead "no_retry" := by
  rw [classify_spec]
  simp only
  have h1 : ¬ (200 ≤ n ∧ n < 300) := by omega
  have h6 : ¬ (n = 408 ∨ n = 429 ∨ 500 ≤ n) := by omega
  simp only [h1, h6, ite_false]

theorem policy_denied_never_retried (attempt max : Int) :
    classify .policyDenied attempt max = .dead "policy_denied" := by
  rw [classify_spec]

/-- a retry is only ever decided while the attempt number is ≤ retry.max -/
theorem retry_implies_attempt_le (r : Res) (attempt max : Int) (h : classify r attempt max = .retry) :
    attempt ≤ max := by
  rw [classify_spec] at h
  cases r with
  | status n => simp only at h; split_ifs at h <;> assumption
  | err => simp only at h; split_ifs at h; assumption
  | policyDenied => simp at h

/-- every outcome other than retry is terminal with a documented reason -/
theorem terminal_reasons (r : Res) (attempt max : Int) :
    classify r attempt max = .ack ∨ classify r attempt max = .retry ∨
    classify r attempt max = .dead "no_retry" ∨ classify r attempt max = .dead "max_retries" ∨
    classify r attempt max = .dead "policy_denied" := by
  rw [classify_spec]
  cases r with
  | status n => simp only; split_ifs <;> simp
  | err => simp only; split_ifs <;> simp
  | policyDenied => simp

/-- **Bounded sends, always settled.** From attempt counter `a₀ ≥ 0`, against *any* sequence of target
    behaviours, with enough fuel the cycle ends (never `none`), the message is sent at most
    `max + 1 − a₀` times (at least once), and it ends acked or dead with a documented reason. -/
theorem sends_bounded (beh : Nat → Res) (max : Int) :
    ∀ (fuel : Nat) (a₀ : Int) (k : Nat), 0 ≤ a₀ → (max + 1 - a₀).toNat < fuel + 1 → 0 < fuel →
      let (s, f) := cycle beh max fuel a₀ k
      (f = some .ack ∨ f = some (.dead "no_retry") ∨ f = some (.dead "max_retries") ∨ f = some (.dead "policy_denied")) ∧
      1 ≤ s ∧ (s : Int) ≤ Max.max 1 (max + 1 - a₀) := by
  intro fuel
  induction fuel with
  | zero => intro a₀ k _ _ h; omega
  | succ n ih =>
    intro a₀ k ha hf _
    simp only [cycle]
    have hterm := terminal_reasons (beh k) (a₀ + 1) max
    cases hc : classify (beh k) (a₀ + 1) max with
    | ack => simp only [true_or, le_refl, true_and]; omega
    | dead reason =>
      rw [hc] at hterm
      simp only [reduceCtorEq, Act.dead.injEq, false_or] at hterm
      simp only [Option.some.injEq, reduceCtorEq, Act.dead.injEq, false_or, le_refl, true_and]
      refine ⟨hterm, ?_⟩
      omega
    | retry =>
      have hle := retry_implies_attempt_le _ _ _ hc
      have hn : 0 < n := by
        have : (1 : Int) ≤ max + 1 - a₀ - 1 + 1 := by omega
        omega
      have := ih (a₀ + 1) (k + 1) (by omega) (by omega) hn
      simp only at this ⊢
      rcases hcy : cycle beh max n (a₀ + 1) (k + 1) with ⟨s, f⟩
      rw [hcy] at this
      simp only
      refine ⟨this.1, by omega, ?_⟩
      have h3 := this.2.2
      omega

/-- hence at most `retry.max + 1` sends per enqueue/requeue cycle (attempt counter starts at 0) -/
theorem sends_le_max_plus_one (beh : Nat → Res) (max : Int) (hmax : 0 ≤ max) (k : Nat) :
    (cycle beh max (max.toNat + 2) 0 k).1 ≤ max.toNat + 1 ∧ (cycle beh max (max.toNat + 2) 0 k).2 ≠ none := by
  have := sends_bounded beh max (max.toNat + 2) 0 k (by omega) (by omega) (by omega)
  rcases hcy : cycle beh max (max.toNat + 2) 0 k with ⟨s, f⟩
  rw [hcy] at this
  simp only at this ⊢
  refine ⟨by omega, ?_⟩
  rcases this.1 with h | h | h | h <;> simp [h]

/-! ### back-off bounds -/

theorem backoff_le_cap (base cap : Int) (a : Nat) (hc : 0 < cap) : backoff base cap a ≤ cap ∨ backoff base cap a = base * 2 ^ (a - 1) := by
  unfold backoff; simp only; split <;> simp_all

theorem backoff_eq_min (base cap : Int) (a : Nat) (hc : 0 < cap) :
    backoff base cap a = min (base * 2 ^ (a - 1)) cap := by
  unfold backoff; simp only [hc, decide_true, Bool.true_and]
  split <;> rename_i h <;> simp at h <;> omega

theorem backoff_nonneg (base cap : Int) (a : Nat) (hb : 0 < base) (hc : 0 < cap) : 0 ≤ backoff base cap a := by
  rw [backoff_eq_min _ _ _ hc]
  have : 0 ≤ base * 2 ^ (a - 1) := by positivity
  omega

/-- **Delay bounds.** For compile-accepted retry settings (`0 < base ≤ cap`, `0 ≤ j = jn/jd ≤ 1`) and any
    random draw `u = un/ud ∈ [0,1)`, with `X = min(base·2^(attempt−1), cap)`:
    `X·(1−j) − 1 < retryDelay ≤ X·(1+j)` (i.e. ⌊X(1−j)⌋ ≤ delay), including the region where `2^(attempt−1)` is astronomically
    large (the `min` with `cap` applies first). Stated multiplied out by the positive denominators. -/
theorem delay_bounds (base cap : Int) (a : Nat) (jn jd un ud : Int)
    (hb : 0 < base) (hc : 0 < cap) (hjd : 0 < jd) (hj0 : 0 ≤ jn) (hj1 : jn ≤ jd)
    (hud : 0 < ud) (hu0 : 0 ≤ un) (hu1 : un < ud) :
    let X := min (base * 2 ^ (a - 1)) cap
    let d := retryDelay base cap a jn jd un ud
    0 ≤ d ∧ jd * d ≤ X * (jd + jn) ∧ X * (jd - jn) < jd * (d + 1) := by
  intro X d
  have hX : backoff base cap a = X := backoff_eq_min _ _ _ hc
  have hX0 : 0 ≤ X := hX ▸ backoff_nonneg base cap a hb hc
  simp only [d, retryDelay, hX]
  have hbn : ¬ base ≤ 0 := by omega
  simp only [hbn, ite_false]
  by_cases hjz : jn ≤ 0
  · have : jn = 0 := by omega
    subst this
    simp only [le_refl, ite_true]
    refine ⟨hX0, by nlinarith, by nlinarith⟩
  · simp only [hjz, ite_false]
    have hgt : ¬ jn > jd := by omega
    simp only [hgt, ite_false]
    have hden : 0 < ud * jd := by positivity
    set num := X * (ud * jd + (2 * un - ud) * jn) with hnum
    have hnum0 : 0 ≤ num := by
      have : 0 ≤ ud * jd + (2 * un - ud) * jn := by nlinarith
      positivity
    have hq0 : 0 ≤ num / (ud * jd) := Int.ediv_nonneg hnum0 (le_of_lt hden)
    have hnn : ¬ num / (ud * jd) < 0 := by omega
    simp only [hnn, ite_false]
    have h1 : (ud * jd) * (num / (ud * jd)) ≤ num := Int.mul_ediv_self_le (ne_of_gt hden)
    have h2 : num < (ud * jd) * (num / (ud * jd)) + ud * jd := Int.lt_mul_ediv_self_add hden
    refine ⟨hq0, ?_, ?_⟩
    · -- jd * q ≤ X (jd + jn):  ud*jd*q ≤ num ≤ X*ud*(jd+jn)
      have hub : num ≤ X * (ud * (jd + jn)) := by
        have : ud * jd + (2 * un - ud) * jn ≤ ud * (jd + jn) := by nlinarith
        exact Int.mul_le_mul_of_nonneg_left this hX0
      have : ud * (jd * (num / (ud * jd))) ≤ ud * (X * (jd + jn)) := by nlinarith
      exact le_of_mul_le_mul_left this hud
    · have hlb : X * (ud * (jd - jn)) ≤ num := by
        have : ud * (jd - jn) ≤ ud * jd + (2 * un - ud) * jn := by nlinarith
        exact Int.mul_le_mul_of_nonneg_left this hX0
      have : ud * (X * (jd - jn)) < ud * (jd * (num / (ud * jd) + 1)) := by nlinarith
      exact lt_of_mul_lt_mul_left this (le_of_lt hud)

/-! ### lease budget (used by C03) -/

theorem le_maxTimeout (ts : List Int) (t : Int) (ht : t ∈ ts) : tmo t ≤ maxTimeout ts := by
  induction ts with
  | nil => simp at ht
  | cons x xs ih =>
    simp only [List.mem_cons] at ht
    simp only [maxTimeout]
    rcases ht with rfl | h
    · split <;> omega
    · have := ih h; split <;> omega

/-- the lease a push worker takes covers `batch` sequential deliveries at the largest target timeout plus
    the slack, and is never shorter than 30 s -/
theorem ttl_budget (timeouts : List Int) (slack batch : Int) (hb : 1 ≤ batch) (t : Int) (ht : t ∈ timeouts) :
    tmo t * batch + slack ≤ routeLeaseTTL timeouts slack batch ∧
    30000000000 ≤ routeLeaseTTL timeouts slack batch := by
  unfold routeLeaseTTL
  have hbb : ¬ batch ≤ 0 := by omega
  simp only [hbb, ite_false]
  have h := le_maxTimeout timeouts t ht
  have hm : tmo t * batch ≤ maxTimeout timeouts * batch := Int.mul_le_mul_of_nonneg_right h (by omega)
  constructor
  · split <;> omega
  · split <;> omega

theorem dequeue_batch_le_four (c n : Int) : 1 ≤ routeDequeueBatch c n ∧ routeDequeueBatch c n ≤ 4 := by
  unfold routeDequeueBatch; split_ifs <;> omega

/-! ### non-vacuity -/
example : classify (.status 503) 3 3 = .retry ∧ classify (.status 503) 4 3 = .dead "max_retries" ∧
    classify (.status 404) 1 3 = .dead "no_retry" ∧ classify (.status 302) 1 3 = .dead "no_retry" ∧
    classify (.status 204) 9 3 = .ack := by decide
example : (cycle (fun _ => .status 500) 3 5 0 0) = (4, some (.dead "max_retries")) := by decide
example : retryDelay 1000 8000 3 1 2 3 4 = 5000 := by decide   -- X = 4000, j = 1/2, u = 3/4: 4000·(1 + 0.25) = 5000

end Hk.Dispatch
