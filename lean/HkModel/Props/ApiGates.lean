/-
  The authorizer is the first thing every API handler consults (C11: "No Pull or Worker operation reads or changes queue state
  unless the request carries a bearer token …; the same holds for every Admin endpoint").

  `Props/C11.lean` proves what the authorizers decide. That the handlers *ask* them before anything else is checked here over
  `Generated/ApiGates.lean`: for the pull HTTP handler, the admin HTTP handler and the four worker gRPC methods (through
  `resolveAndAuthorize`), the source-order sequence of the calls made through the handler's own receiver and of its returns,
  regenerated on every run.
-/
import HkModel.Generated.ApiGates

namespace Hk.ApiGates

def eventsOf (file fn : String) : List (String × String) :=
  match Gen.apiHandlerEvents.find? (fun (f, g, _) => f == file && g == fn) with
  | some (_, _, es) => es
  | none => []

/-- the first call through the receiver is `gate`, it is the only call of it, and the very next event is a `return` (the
    refusal leaves the handler before anything else is consulted) -/
def gatedBy (gate : String) (es : List (String × String)) : Bool :=
  let calls := es.filter (·.1 == "call")
  calls.head? == some ("call", gate) && calls.count ("call", gate) == 1 &&
  (match es.dropWhile (· != ("call", gate)) with
   | _ :: next :: _ => next == ("return", "")
   | _ => false) &&
  decide (calls.length ≥ 2)     -- … and there is something behind the gate

theorem pull_http_asks_the_authorizer_first :
    gatedBy "Authorize" (eventsOf "internal/pullapi/http.go" "ServeHTTP") = true := by decide

theorem admin_http_asks_the_authorizer_first :
    gatedBy "Authorize" (eventsOf "internal/admin/http.go" "ServeHTTP") = true := by decide

theorem worker_grpc_asks_the_authorizer_first :
    gatedBy "Authorize" (eventsOf "internal/workerapi/server.go" "resolveAndAuthorize") = true ∧
    (["Dequeue", "Ack", "Nack", "Extend"].all fun m =>
      gatedBy "resolveAndAuthorize" (eventsOf "internal/workerapi/server.go" m)) = true := by decide

/-- every handler behind the pull and admin gates is reached only after it (there is one dispatch, after the gate) -/
theorem handlers_behind_the_gate :
    ((eventsOf "internal/pullapi/http.go" "ServeHTTP").filter (·.1 == "call")).map (·.2) =
      ["Authorize", "resolveRoute", "handleDequeue", "handleAck", "handleNack", "handleExtend"] ∧
    (((eventsOf "internal/admin/http.go" "ServeHTTP").filter (·.1 == "call")).map (·.2)).head? = some "Authorize" ∧
    (((eventsOf "internal/admin/http.go" "ServeHTTP").filter (·.1 == "call")).map (·.2)).tail.all (· != "Authorize") = true := by
  decide

/-- non-vacuity -/
example : gatedBy "Authorize" [("call", "handleAck"), ("call", "Authorize"), ("return", "")] = false := by decide
example : gatedBy "Authorize" [("call", "Authorize"), ("call", "handleAck"), ("return", "")] = false := by decide

end Hk.ApiGates
