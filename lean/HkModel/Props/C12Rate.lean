import HkModel.Model.RateLimit
import HkModel.Model.IngressAuth
import Mathlib.Tactic.Linarith
/-! C12 — rate limiter and size limits. Property theorems. -/
namespace Hk.RateLimit

/-- one step: what is spent is covered by what was there plus the refill for the time `last` moved forward -/
theorem allow_step (p : Params) (b : Bucket) (t : Int) (hb0 : 0 ≤ b.tokens) (hbc : b.tokens ≤ p.cap) (hs : 0 < p.scale) :
    let r := allow p b t
    0 ≤ r.1.tokens ∧ r.1.tokens ≤ p.cap ∧ b.last ≤ r.1.last ∧
    r.1.tokens + (if r.2 then p.scale else 0) ≤ b.tokens + (r.1.last - b.last) * p.num := by
  unfold allow
  simp only
  have hnum : (0 : Int) ≤ p.num := Int.natCast_nonneg _
  by_cases ht : t > b.last
  · simp only [ht, ite_true]
    have href : 0 ≤ (t - b.last) * (p.num : Int) := Int.mul_nonneg (by omega) hnum
    split
    · simp only [Bool.false_eq_true, ite_false]
      refine ⟨by omega, Int.min_le_right _ _, by omega, ?_⟩
      have := Int.min_le_left (b.tokens + (t - b.last) * ↑p.num) p.cap
      omega
    · rename_i hge
      simp only [ite_true]
      have h1 := Int.min_le_left (b.tokens + (t - b.last) * ↑p.num) p.cap
      have h2 := Int.min_le_right (b.tokens + (t - b.last) * ↑p.num) p.cap
      refine ⟨by omega, by omega, by omega, by omega⟩
  · simp only [ht, ite_false]
    split
    · simp only [Bool.false_eq_true, ite_false]; refine ⟨hb0, hbc, by omega, by simp⟩
    · simp only [ite_true]; refine ⟨by omega, by omega, by omega, by simp⟩

/-- **Window bound.** Over any stretch of arrivals (any timestamps, in any order), the number admitted is at most
    `burst + rps × (time the bucket's clock moved forward)`; stated scaled by `S = den·10⁹`:
    `admitted·S ≤ tokens_before + num·(last_after − last_before) ≤ burst·S + num·Δ`. -/
theorem window_bound (p : Params) (hs : 0 < p.scale) :
    ∀ (ts : List Int) (b : Bucket), 0 ≤ b.tokens → b.tokens ≤ p.cap →
      let r := run p b ts
      0 ≤ r.1.tokens ∧ r.1.tokens ≤ p.cap ∧ b.last ≤ r.1.last ∧
      (admitted r.2 : Int) * p.scale + r.1.tokens ≤ b.tokens + (r.1.last - b.last) * p.num := by
  intro ts
  induction ts with
  | nil => intro b h0 hc; simp [run, admitted]; exact ⟨h0, hc⟩
  | cons t rest ih =>
    intro b h0 hc
    simp only [run]
    have hst := allow_step p b t h0 hc hs
    simp only at hst
    cases ha : allow p b t with
    | mk b' a =>
      rw [ha] at hst
      simp only at hst
      have hr := ih b' hst.1 hst.2.1
      simp only at hr
      cases hrun : run p b' rest with
      | mk bf as =>
        rw [hrun] at hr
        simp only at hr ⊢
        refine ⟨hr.1, hr.2.1, by omega, ?_⟩
        have hadm : (admitted (a :: as) : Int) = (if a then 1 else 0) + admitted as := by
          cases a <;> simp [admitted]
          omega
        rw [hadm]
        have h4 := hst.2.2.2
        have h5 := hr.2.2.2
        have hnum : (0 : Int) ≤ p.num := Int.natCast_nonneg _
        cases a
        · simp only [Bool.false_eq_true, ite_false] at h4 ⊢
          nlinarith
        · simp only [ite_true] at h4 ⊢
          nlinarith

/-- the property's form: admitted·S ≤ burst·S + num·(time the bucket clock advanced) -/
theorem bucket_window_bound (p : Params) (hs : 0 < p.scale) (ts : List Int) (b : Bucket)
    (h0 : 0 ≤ b.tokens) (hc : b.tokens ≤ p.cap) :
    (admitted (run p b ts).2 : Int) * p.scale ≤ p.cap + ((run p b ts).1.last - b.last) * p.num := by
  have := window_bound p hs ts b h0 hc
  simp only at this
  omega

/-- the bucket clock never runs ahead of the latest timestamp seen: for non-decreasing arrivals the advance is
    exactly `t_last − last_before`, i.e. the length of the window -/
theorem last_le_max (p : Params) : ∀ (ts : List Int) (b : Bucket) (m : Int), b.last ≤ m → (∀ t ∈ ts, t ≤ m) →
    (run p b ts).1.last ≤ m := by
  intro ts
  induction ts with
  | nil => intro b m h _; simpa [run] using h
  | cons t rest ih =>
    intro b m h hall
    simp only [run]
    have ht : t ≤ m := hall t (by simp)
    have hb' : (allow p b t).1.last ≤ m := by
      unfold allow; simp only
      by_cases hgt : t > b.last
      · simp only [hgt, ite_true]; split <;> simp <;> omega
      · simp only [hgt, ite_false]; split <;> simp <;> omega
    cases ha : allow p b t with
    | mk b' a =>
      rw [ha] at hb'
      have := ih b' m hb' (fun x hx => hall x (by simp [hx]))
      cases hrun : run p b' rest with
      | mk bf as => rw [hrun] at this; simpa using this

/-- hence: over any window of arrivals with timestamps in `[t₀, t₁]` (bucket clock at `t₀` or later at its start),
    at most `burst + rps·(t₁ − t₀)` requests are admitted -/
theorem admitted_le_burst_plus_rate (p : Params) (hs : 0 < p.scale) (ts : List Int) (b : Bucket) (t1 : Int)
    (h0 : 0 ≤ b.tokens) (hc : b.tokens ≤ p.cap) (hlast : b.last ≤ t1) (hall : ∀ t ∈ ts, t ≤ t1) :
    (admitted (run p b ts).2 : Int) * p.scale ≤ p.cap + (t1 - b.last) * p.num := by
  have h1 := bucket_window_bound p hs ts b h0 hc
  have h2 := last_le_max p ts b t1 hlast hall
  have hnum : (0 : Int) ≤ p.num := Int.natCast_nonneg _
  nlinarith

/-! ### size limits (via the handler flow of `Model/IngressAuth`) -/
open Hk.IngressAuth in
/-- a body over `max_body` or stored headers over `max_headers` answer 413 and enqueue nothing -/
theorem size_limits (i : FlowIn) (hr : i.routed = true) (hrate : i.rateOK = true) (hp : i.pressureOK = true)
    (hb : i.basic ≠ some false) :
    (i.bodyOK = false → flow i = (413, 0)) ∧
    (i.bodyOK = true → fwdStatus i = 0 → i.hmac ≠ some false → i.headersOK = false → flow i = (413, 0)) := by
  have hb' : (i.basic == some false) = false := by
    cases h : i.basic with
    | none => rfl
    | some x => cases x with
      | false => exact absurd h hb
      | true => rfl
  constructor
  · intro h; simp [flow, hr, hrate, hp, hb', h]
  · intro h1 h2 h3 h4
    have h3' : (i.hmac == some false) = false := by
      cases h : i.hmac with
      | none => rfl
      | some x => cases x with
        | false => exact absurd h h3
        | true => rfl
    simp [flow, hr, hrate, hp, hb', h1, h2, h3', h4]

open Hk.IngressAuth in
/-- rate-limited requests answer 429 and enqueue nothing; a fan-out refused part-way keeps exactly the copies of
    the earlier targets -/
theorem rate_limited_and_fanout (i : FlowIn) (hr : i.routed = true) :
    (i.rateOK = false → flow i = (429, 0)) ∧
    (∀ k, (flow i).1 = 503 → failIdx i = some k → fwdStatus i = 0 → i.pressureOK = true → (flow i).2 = k) := by
  constructor
  · intro h; simp [flow, hr, h]
  · intro k h503 hk hf hp
    unfold flow at *
    simp only [hr, Bool.not_true, Bool.false_eq_true, ite_false, hp, hf, bne_self_eq_false] at h503 ⊢
    split_ifs at h503 ⊢ <;> simp_all

/-! ### non-vacuity -/
example : (run { num := 2, den := 1, burst := 3 } (init { num := 2, den := 1, burst := 3 } 0)
    [0, 0, 0, 0, 500000000, 500000000, 250000000, 1000000000]).2 = [true, true, true, false, true, false, false, true] := by
  decide

end Hk.RateLimit
