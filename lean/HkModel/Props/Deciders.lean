/-
  `isSuccess` and `shouldRetry` as written are the model's (C06) — by translation, for every delivery result.

  `Generated/Deciders.lean` holds the two functions of `internal/dispatcher/push.go` as if / endif / return programs with the
  source text of their conditions and returned expressions (regenerated on every run); `evalB` runs such a program on a
  delivery result, giving each condition text its meaning; the theorems say that for **every** result — every status code,
  a transport error, a policy denial — the program returns what `Model/Dispatch.isSuccess` / `shouldRetry` return. Together
  with `Props/ClassifyTree.lean` this makes the whole classification path of the push dispatcher a translated, not a
  hand-copied, model. A condition or expression the evaluator does not know gives `none` and the theorems fail.
-/
import HkModel.Model.Dispatch
import HkModel.Generated.Deciders

namespace Hk.Deciders
open Hk.Dispatch

def hasErr : Res → Bool
  | .status _ => false
  | _ => true

def code : Res → Int
  | .status n => n
  | _ => 0        -- a result with an error carries no status the deciders look at

def evalCond (r : Res) (c : String) : Option Bool :=
  if c == "res.Err != nil" then some (hasErr r)
  else if c == "errors.Is(res.Err, ErrPolicyDenied)" then some (r == .policyDenied)
  else if c == "code == http.StatusRequestTimeout || code == http.StatusTooManyRequests" then some (code r == 408 || code r == 429)
  else if c == "code >= 500" then some (decide (code r ≥ 500))
  else none

def evalRet (r : Res) (e : String) : Option Bool :=
  if e == "false" then some false
  else if e == "true" then some true
  else if e == "res.StatusCode >= 200 && res.StatusCode < 300" then some (decide (200 ≤ code r) && decide (code r < 300))
  else none

def skip : Nat → List (String × String) → List (String × String)
  | _, [] => []
  | depth, (k, _) :: rest =>
    if k == "if" then skip (depth + 1) rest
    else if k == "endif" then (if depth == 0 then rest else skip (depth - 1) rest)
    else skip depth rest

/-- programs without `else` (the extractor emits `else` events; none occurs in these two functions, and one would make the
    evaluator give up) -/
def evalB (r : Res) : Nat → List (String × String) → Option Bool
  | 0, _ => none
  | _, [] => none
  | fuel + 1, (k, v) :: rest =>
    if k == "if" then
      match evalCond r v with
      | none => none
      | some true => evalB r fuel rest
      | some false => evalB r fuel (skip 0 rest)
    else if k == "endif" then evalB r fuel rest
    else if k == "assign" then (if v == "code := res.StatusCode" then evalB r fuel rest else none)
    else if k == "return" then evalRet r v
    else none

theorem isSuccess_program :
    Gen.isSuccessProgram = [("if", "res.Err != nil"), ("return", "false"), ("endif", ""),
                            ("return", "res.StatusCode >= 200 && res.StatusCode < 300")] := by decide

theorem shouldRetry_program :
    Gen.shouldRetryProgram = [("if", "res.Err != nil"), ("if", "errors.Is(res.Err, ErrPolicyDenied)"), ("return", "false"), ("endif", ""),
      ("return", "true"), ("endif", ""), ("assign", "code := res.StatusCode"),
      ("if", "code == http.StatusRequestTimeout || code == http.StatusTooManyRequests"), ("return", "true"), ("endif", ""),
      ("if", "code >= 500"), ("return", "true"), ("endif", ""), ("return", "false")] := by decide

/-- **every result**: the code's `isSuccess` is the model's -/
theorem code_isSuccess_is_model (r : Res) : evalB r 20 Gen.isSuccessProgram = some (isSuccess r) := by
  rw [isSuccess_program]
  cases r with
  | err => rfl
  | policyDenied => rfl
  | status n =>
    simp [evalB, evalCond, evalRet, skip, hasErr, code, isSuccess]
    try rfl

/-- **every result**: the code's `shouldRetry` is the model's -/
theorem code_shouldRetry_is_model (r : Res) : evalB r 40 Gen.shouldRetryProgram = some (shouldRetry r) := by
  rw [shouldRetry_program]
  cases r with
  | err => rfl
  | policyDenied => rfl
  | status n =>
    by_cases h1 : n = 408
    · subst h1; rfl
    · by_cases h2 : n = 429
      · subst h2; rfl
      · have hb : (n == 408 || n == 429) = false := by simp [h1, h2]
        by_cases h3 : n ≥ 500
        · simp [evalB, evalCond, evalRet, skip, hasErr, code, shouldRetry, hb, h3]
        · simp [evalB, evalCond, evalRet, skip, hasErr, code, shouldRetry, hb, h3]

/-- non-vacuity: an unknown condition is refused -/
example : evalB (.status 200) 5 [("if", "res.StatusCode == 204"), ("return", "true"), ("endif", ""), ("return", "false")] = none := by decide

end Hk.Deciders
