import HkModel.Model.Mcp
/-! C20 — MCP tools are role-, flag- and principal-gated, confined and audited. Theorems over the REGENERATED
    tables: every statement quantifies over the complete finite tool list (`decide`), and over all tool names for
    the "unknown tool" clauses. -/
namespace Hk.Mcp
open Hk.Gen

/-- an unknown tool name is denied whatever the role, flags and principal -/
theorem unknown_tool_denied (t : String) (h : requiredRole t = none) (role : Role) (mu rt p : Bool) :
    allowed t role mu rt p = false := by
  simp [allowed, h]

/-- the gating decision, stated outright for every tool name -/
theorem gating_complete (t : String) (role : Role) (mu rt p : Bool) :
    allowed t role mu rt p = true ↔
      ∃ r, requiredRole t = some r ∧ r.rank ≤ role.rank ∧ (needsMut t = true → mu = true) ∧
        (needsRt t = true → rt = true) ∧ (mutating t = true → p = true) := by
  unfold allowed
  cases h : requiredRole t with
  | none => simp
  | some r =>
    simp only [Bool.and_eq_true, Bool.or_eq_true, Bool.not_eq_true', decide_eq_true_eq, ge_iff_le, Option.some.injEq,
      exists_eq_left']
    constructor
    · rintro ⟨⟨⟨h1, h2⟩, h3⟩, h4⟩
      refine ⟨h3, ?_, ?_, ?_⟩
      · intro hm; rcases h1 with h1 | h1 <;> simp_all
      · intro hm; rcases h2 with h2 | h2 <;> simp_all
      · intro hm; rcases h4 with h4 | h4 <;> simp_all
    · rintro ⟨h3, h1, h2, h4⟩
      refine ⟨⟨⟨?_, ?_⟩, h3⟩, ?_⟩
      · cases hm : needsMut t <;> simp_all
      · cases hm : needsRt t <;> simp_all
      · cases hm : mutating t <;> simp_all

/-- **Tables are consistent**: the role table, the dispatch switch and the descriptor list name exactly the same
    tools; every tool of a flag / mutating table is a known tool; no tool is listed twice. -/
theorem tables_consistent :
    sameSet tools mcpDispatch = true ∧ sameSet tools mcpDescriptors = true ∧
    mcpNeedsMut.all tools.contains = true ∧ mcpNeedsRt.all tools.contains = true ∧ mcpMutating.all tools.contains = true ∧
    tools.length = mcpDescriptors.length ∧ tools.length = mcpDispatch.length ∧
    (mcpRole.all (fun p => (Role.ofString? p.2).isSome)) = true := by decide

/-- **Every mutating tool needs a feature flag and at least the operate role**; no tool needs both flags. -/
theorem mutating_needs_flag :
    mcpMutating.all (fun t => (needsMut t || needsRt t) &&
      (match requiredRole t with | some r => decide (r.rank ≥ 2) | none => false)) = true ∧
    tools.all (fun t => !(needsMut t && needsRt t)) = true := by decide

/-- **The code's flag tables are the documented ones** (`spec.md` headings), and the documented tool list is the
    code's tool list. -/
theorem code_matches_doc :
    sameSet mcpNeedsMut mcpDocMut = true ∧ sameSet mcpNeedsRt mcpDocRt = true ∧ sameSet tools mcpDocTools = true := by
  decide

/-- with both feature flags off, or without a principal, no mutating tool is allowed — for any role -/
theorem mutating_denied_without_flags_or_principal :
    (∀ role p, mcpMutating.all (fun t => !allowed t role false false p) = true) ∧
    (∀ role mu rt, mcpMutating.all (fun t => !allowed t role mu rt false) = true) := by
  constructor
  · intro role p; cases role <;> cases p <;> decide
  · intro role mu rt; cases role <;> cases mu <;> cases rt <;> decide

/-- role monotonicity: what a role may call, every higher role may call (same flags) -/
theorem role_monotone (mu rt p : Bool) :
    tools.all (fun t => (!allowed t .read mu rt p || allowed t .operate mu rt p) &&
      (!allowed t .operate mu rt p || allowed t .admin mu rt p)) = true := by
  cases mu <;> cases rt <;> cases p <;> decide

/-- the read role reaches no mutating tool and nothing that changes queue, config or processes -/
theorem read_role_inspect_only (mu rt p : Bool) :
    tools.all (fun t => !allowed t .read mu rt p || !mutating t) = true := by
  cases mu <;> cases rt <;> cases p <;> decide

/-- **tools/list advertises exactly the allowed tools** -/
theorem list_eq_call (role : Role) (mu rt p : Bool) (t : String) :
    t ∈ listed role mu rt p ↔ t ∈ mcpDescriptors ∧ allowed t role mu rt p = true := by
  simp [listed, List.mem_filter]

/-- one audit record on every outcome of a mutating call, none otherwise -/
theorem audit_on_every_outcome (t : String) (o : Outcome) :
    auditRecords t o = if mutating t then 1 else 0 := rfl

/-- the order of the access checks as extracted: unknown tool, mutations flag, runtime flag, role, principal -/
theorem access_check_order :
    mcpAccessChecks = ["!ok", "toolRequiresMutationsFlag", "toolRequiresRuntimeControlFlag", "roleAllows",
      "toolIsMutating+auditPrincipal"] := by decide

/-! ### non-vacuity -/
example : allowed "dlq_delete" .operate true false true = true ∧ allowed "dlq_delete" .read true false true = false ∧
    allowed "dlq_delete" .admin false true true = false ∧ allowed "dlq_delete" .admin true true false = false ∧
    allowed "instance_stop" .admin false true true = true ∧ allowed "nope" .admin true true true = false ∧
    tools.length = 31 := by decide

end Hk.Mcp
