import HkModel.Model.PullOps
/-!
  Pull layer (`internal/pullapi/ops.go`) — machine-checked properties of the model
  `HkModel/Model/PullOps.lean`, for ALL inputs and ALL histories.

  1. `cached_answer_inert`      an answer produced without a store call changes no message.
  2. `cache_sound`, `idempotent_answer_only_after_success`
                                the "recently completed lease operation" cache only ever answers for
                                a lease after an earlier step of the same run in which the pull layer
                                saw that operation succeed at the store, less than `recentTTL` earlier.
                                KNOWN DEVIATION (see `untrimmed_batch_poisons_cache`): what the pull
                                layer *treats* as a store success in a batch (`successfulLeaseIDs`)
                                is a genuine store success only when the batch ids carry no
                                surrounding white space.
  3. `stale_single_conflict`    a single ack/nack/extend on a lease nobody holds unexpired is a 409 and
                                at most releases expired holders of that lease id.
  4. `dequeue_batch_capped`     batch / TTL capping of `Server.Dequeue`.
  5. non-vacuity examples.
-/
namespace Hk.PullOps
open Hk

/-! ## `trimWS` is idempotent -/

theorem dropWhile_of_head {α : Type} (p : α → Bool) :
    ∀ (l : List α), (∀ a, l.head? = some a → p a = false) → l.dropWhile p = l
  | [], _ => rfl
  | a :: l, h => by
    have : p a = false := h a rfl
    simp [this]

theorem head_dropWhile {α : Type} (p : α → Bool) (l : List α) :
    ∀ a, (l.dropWhile p).head? = some a → p a = false := by
  intro a ha
  have := List.head?_dropWhile_not p l
  rw [ha] at this
  exact this

/-- dropping a trailing run keeps the head -/
theorem head_dropTrailing {α : Type} (p : α → Bool) (y : List α)
    (hy : ∀ a, y.head? = some a → p a = false) :
    ∀ a, ((y.reverse.dropWhile p).reverse).head? = some a → p a = false := by
  intro a ha
  obtain ⟨t, ht⟩ := List.dropWhile_suffix (l := y.reverse) p
  have hy' : y = (y.reverse.dropWhile p).reverse ++ t.reverse := by
    have := congrArg List.reverse ht
    simpa using this.symm
  cases hL : (y.reverse.dropWhile p).reverse with
  | nil => rw [hL] at ha; cases ha
  | cons b L' =>
    rw [hL] at ha hy'
    simp at ha
    subst ha
    apply hy
    rw [hy']; rfl

theorem trimWS_idem (s : String) : trimWS (trimWS s) = trimWS s := by
  unfold trimWS
  rw [String.toList_ofList]
  apply congrArg String.ofList
  apply congrArg List.reverse
  have h1 := head_dropTrailing goSpace (s.toList.dropWhile goSpace) (head_dropWhile goSpace s.toList)
  rw [dropWhile_of_head goSpace _ h1, List.reverse_reverse,
    dropWhile_of_head goSpace _ (head_dropWhile goSpace _)]

theorem trimWS_empty : trimWS "" = "" := by decide
theorem trimWS_opAck : trimWS opAck = opAck := by decide
theorem trimWS_opNack : trimWS opNack = opNack := by decide

/-- `normalizeLeaseIDs` (HTTP layer, batch branch) is `Hk.normIds`; its output is trimmed -/
theorem normIds_trimmed (ids : List String) : ∀ raw ∈ normIds ids, trimWS raw = raw := by
  intro raw h
  unfold normIds at h
  rw [List.mem_eraseDups] at h
  simp only [List.mem_filter, List.mem_map] at h
  obtain ⟨⟨x, _, rfl⟩, _⟩ := h
  exact trimWS_idem x

/-! ## the cache primitives -/

theorem mem_prune {c : Cache} {now : Int} {e : String × String × Int} (h : e ∈ prune c now) : e ∈ c :=
  List.IsSuffix.mem h (List.dropWhile_suffix _)

theorem keyIs_eq {l op : String} {e : String × String × Int} (h : keyIs l op e = true) :
    e = (l, op, e.2.2) := by
  obtain ⟨a, b, x⟩ := e
  simp only [keyIs, Bool.and_eq_true, beq_iff_eq] at h
  obtain ⟨rfl, rfl⟩ := h
  rfl

/-- a lookup never adds an entry -/
theorem recent_sub {pc : PCfg} {c : Cache} {now : Int} {l op : String} {e : String × String × Int}
    (h : e ∈ (recent pc c now l op).1) : e ∈ c := by
  unfold recent at h
  simp only at h
  split at h
  · exact h
  · split at h
    · exact h
    · split at h
      · exact mem_prune h
      · split at h
        · exact mem_prune h
        · exact mem_prune (List.mem_of_mem_eraseP h)

/-- a hit is backed by a live entry under the trimmed key -/
theorem recent_hit {pc : PCfg} {c : Cache} {now : Int} {l op : String}
    (h : (recent pc c now l op).2 = true) :
    ∃ exp, (trimWS l, trimWS op, exp) ∈ c ∧ now < exp := by
  unfold recent at h
  simp only at h
  split at h
  · cases h
  · split at h
    · cases h
    · split at h
      · cases h
      · rename_i e he
        split at h
        · rename_i hlt
          refine ⟨e.2.2, ?_, hlt⟩
          have hk := keyIs_eq (List.find?_some he)
          rw [← hk]
          exact mem_prune (List.mem_of_find?_eq_some he)
        · cases h

/-- remembering adds at most the one entry `(trim l, trim op, now + recentTTL)` -/
theorem mem_remember {pc : PCfg} {c : Cache} {now : Int} {l op : String} {e : String × String × Int}
    (h : e ∈ remember pc c now l op) :
    e ∈ c ∨ e = (trimWS l, trimWS op, now + pc.recentTTL) := by
  unfold remember at h
  simp only at h
  split at h
  · exact .inl h
  · split at h
    · exact .inl h
    · split at h
      · rcases List.mem_append.1 h with h | h
        · exact .inl (mem_prune (List.mem_of_mem_eraseP h))
        · exact .inr (by simpa using h)
      · rcases List.mem_append.1 (List.mem_of_mem_drop h) with h | h
        · exact .inl (mem_prune h)
        · exact .inr (by simpa using h)

theorem mem_rememberAll {pc : PCfg} {now : Int} {op : String} :
    ∀ (ids : List String) (c : Cache) (e : String × String × Int), e ∈ rememberAll pc now op ids c →
      e ∈ c ∨ ∃ raw ∈ ids, e = (trimWS raw, trimWS op, now + pc.recentTTL)
  | [], _, _, h => .inl h
  | l :: rest, c, e, h => by
    rcases mem_rememberAll rest _ e h with h | ⟨raw, hr, he⟩
    · rcases mem_remember h with h | h
      · exact .inl h
      · exact .inr ⟨l, List.mem_cons_self, h⟩
    · exact .inr ⟨raw, List.mem_cons_of_mem _ hr, he⟩

theorem partition_sub {pc : PCfg} {now : Int} {op : String} :
    ∀ (ls : List String) (c : Cache) (e : String × String × Int), e ∈ (partition pc now op ls c).1 → e ∈ c
  | [], _, _, h => h
  | raw :: rest, c, e, h => by
    simp only [partition] at h
    split at h <;> exact recent_sub (partition_sub rest _ e h)

/-- every id the partition reports as completed has a live cache entry -/
theorem partition_done {pc : PCfg} {now : Int} {op : String} :
    ∀ (ls : List String) (c : Cache) (raw : String), raw ∈ (partition pc now op ls c).2.2 →
      ∃ exp, (trimWS raw, trimWS op, exp) ∈ c ∧ now < exp
  | [], _, _, h => by simp [partition] at h
  | x :: rest, c, raw, h => by
    simp only [partition] at h
    split at h
    · rename_i hx
      rcases List.mem_cons.1 h with rfl | h
      · exact recent_hit hx
      · obtain ⟨exp, he, hlt⟩ := partition_done rest _ raw h
        exact ⟨exp, recent_sub he, hlt⟩
    · obtain ⟨exp, he, hlt⟩ := partition_done rest _ raw h
      exact ⟨exp, recent_sub he, hlt⟩

theorem partition_pending_sub {pc : PCfg} {now : Int} {op : String} :
    ∀ (ls : List String) (c : Cache) (raw : String), raw ∈ (partition pc now op ls c).2.1 → raw ∈ ls
  | [], _, _, h => by simp [partition] at h
  | x :: rest, c, raw, h => by
    simp only [partition] at h
    split at h
    · exact List.mem_cons_of_mem _ (partition_pending_sub rest _ raw h)
    · rcases List.mem_cons.1 h with rfl | h
      · exact List.mem_cons_self
      · exact List.mem_cons_of_mem _ (partition_pending_sub rest _ raw h)

/-! ## shape of the operations -/

/-- the three ways a single lease operation can answer -/
theorem singleOp_cases {qc : Cfg} {pc : PCfg} {now : Int} {ps ps' : PState} {l0 : String}
    {key : Option String} {k : LeaseKind} {ch : Choice} {r : PResp}
    (h : singleOp qc pc now ps l0 key k ch = some (ps', r)) :
    (trimWS l0 = "" ∧ ps' = ps ∧ r = { status := 400 }) ∨
    (trimWS l0 ≠ "" ∧ (lookup pc ps.cache now (trimWS l0) key).2 = true ∧
      ps' = { ps with cache := (lookup pc ps.cache now (trimWS l0) key).1 } ∧ r = { status := 204 }) ∨
    (trimWS l0 ≠ "" ∧ (lookup pc ps.cache now (trimWS l0) key).2 = false ∧
      ∃ q' resp, Hk.step qc now ps.q (.lease k (trimWS l0)) ch = some (q', resp) ∧
        ps' = { q := q', cache := noteOk pc (lookup pc ps.cache now (trimWS l0) key).1 now (trimWS l0) resp key } ∧
        r = { status := singleStatus resp, storeCalls := 1 }) := by
  unfold singleOp at h
  simp only at h
  generalize hs : Hk.step qc now ps.q (.lease k (trimWS l0)) ch = s at h
  by_cases hb : trimWS l0 = ""
  · simp only [hb, beq_self_eq_true, if_true] at h
    cases h
    exact .inl ⟨hb, rfl, rfl⟩
  · have hb' : (trimWS l0 == "") = false := by simpa using hb
    simp only [hb', Bool.false_eq_true, if_false] at h
    cases hhit : (lookup pc ps.cache now (trimWS l0) key).2 with
    | true =>
      simp only [hhit, if_true] at h
      cases h
      exact .inr (.inl ⟨hb, rfl, rfl, rfl⟩)
    | false =>
      simp only [hhit, Bool.false_eq_true, if_false] at h
      cases s with
      | none => cases h
      | some x =>
        obtain ⟨q', resp⟩ := x
        simp only at h
        cases h
        exact .inr (.inr ⟨hb, rfl, q', resp, rfl, rfl, rfl⟩)

/-- the three ways a batch lease operation can answer -/
theorem batchOp_cases {qc : Cfg} {pc : PCfg} {now : Int} {ps ps' : PState} {ls : List String}
    {key : String} {k : LeaseKind} {ch : Choice} {r : PResp}
    (h : batchOp qc pc now ps ls key k ch = some (ps', r)) :
    let p := partition pc now key ls ps.cache
    (p.2.1 = [] ∧ ps' = { ps with cache := p.1 } ∧ r = { status := 200, succeeded := p.2.2.length }) ∨
    (p.2.1 ≠ [] ∧ ∃ q' n cs, Hk.step qc now ps.q (.leaseBatch k p.2.1) ch = some (q', .batch n cs) ∧
        ps' = { q := q', cache := rememberAll pc now key (successfulIds p.2.1 cs) p.1 } ∧
        r = { status := 200, succeeded := p.2.2.length + n, conflicts := cs, storeCalls := 1 }) ∨
    (p.2.1 ≠ [] ∧ ∃ q' resp, Hk.step qc now ps.q (.leaseBatch k p.2.1) ch = some (q', resp) ∧
        (∀ n cs, resp ≠ .batch n cs) ∧
        ps' = { q := q', cache := p.1 } ∧ r = { status := 500, storeCalls := 1 }) := by
  intro p
  unfold batchOp at h
  simp only at h
  generalize hs : Hk.step qc now ps.q (.leaseBatch k (partition pc now key ls ps.cache).2.1) ch = s at h
  by_cases hb : p.2.1 = []
  · have : (partition pc now key ls ps.cache).2.1.isEmpty = true := by
      rw [List.isEmpty_iff]; exact hb
    simp only [this, if_true] at h
    cases h
    exact .inl ⟨hb, rfl, rfl⟩
  · have : (partition pc now key ls ps.cache).2.1.isEmpty = false := by
      cases hi : (partition pc now key ls ps.cache).2.1.isEmpty with
      | false => rfl
      | true => exact absurd (List.isEmpty_iff.1 hi) hb
    simp only [this, Bool.false_eq_true, if_false] at h
    cases s with
    | none => cases h
    | some x =>
      obtain ⟨q', resp⟩ := x
      simp only at h
      cases resp with
      | batch n cs =>
        simp only at h
        cases h
        exact .inr (.inl ⟨hb, q', n, cs, rfl, rfl, rfl⟩)
      | _ =>
        simp only at h
        cases h
        exact .inr (.inr ⟨hb, q', _, rfl, (by intro n cs hh; cases hh), rfl, rfl⟩)

/-! ## 1. an answer served without a store call changes no message -/

theorem singleOp_inert {qc : Cfg} {pc : PCfg} {now : Int} {ps ps' : PState} {l0 : String}
    {key : Option String} {k : LeaseKind} {ch : Choice} {r : PResp}
    (h : singleOp qc pc now ps l0 key k ch = some (ps', r)) (h0 : r.storeCalls = 0) : ps'.q = ps.q := by
  rcases singleOp_cases h with ⟨_, rfl, _⟩ | ⟨_, _, rfl, _⟩ | ⟨_, _, q', resp, _, _, rfl⟩
  · rfl
  · rfl
  · cases h0

theorem batchOp_inert {qc : Cfg} {pc : PCfg} {now : Int} {ps ps' : PState} {ls : List String}
    {key : String} {k : LeaseKind} {ch : Choice} {r : PResp}
    (h : batchOp qc pc now ps ls key k ch = some (ps', r)) (h0 : r.storeCalls = 0) : ps'.q = ps.q := by
  rcases batchOp_cases h with ⟨_, rfl, _⟩ | ⟨_, _, _, _, _, _, rfl⟩ | ⟨_, _, _, _, _, _, rfl⟩
  · rfl
  · cases h0
  · cases h0

/-- **1.** If a step answers without performing a store operation (`storeCalls = 0`: blank id,
    cache hit, all-cached batch) the queue is untouched: no message changes. -/
theorem cached_answer_inert {qc : Cfg} {pc : PCfg} {now : Int} {ps ps' : PState} {op : POp}
    {ch : Choice} {r : PResp}
    (h : pstep qc pc now ps op ch = some (ps', r)) (h0 : r.storeCalls = 0) : ps'.q = ps.q := by
  cases op with
  | dequeue route batch ttl =>
    simp only [pstep] at h
    generalize Hk.step qc now ps.q _ ch = s at h
    cases s with
    | none => cases h
    | some x =>
      obtain ⟨q', resp⟩ := x
      cases resp <;> (simp only at h; cases h; cases h0)
  | ackSingle l => simp only [pstep] at h; exact singleOp_inert h h0
  | ackBatch ls => simp only [pstep] at h; exact batchOp_inert h h0
  | nackSingle l d rs dl => simp only [pstep] at h; exact singleOp_inert h h0
  | nackBatch ls d rs dl => simp only [pstep] at h; exact batchOp_inert h h0
  | extend l b => simp only [pstep] at h; exact singleOp_inert h h0

/-! ## 2. soundness of the idempotency cache -/

/-- The (trimmed lease id, op key) pairs a step answers as succeeded FROM THE CACHE, i.e. without
    asking the store about them: the single 204 served from the cache, and the ids a batch counts
    in `succeeded` because `partitionRecentlyCompletedLeases` found them. -/
def hits (pc : PCfg) (now : Int) (ps : PState) : POp → List (String × String)
  | .ackSingle l0 =>
      if trimWS l0 != "" && (recent pc ps.cache now (trimWS l0) opAck).2 then [(trimWS l0, opAck)] else []
  | .nackSingle l0 _ _ _ =>
      if trimWS l0 != "" && (recent pc ps.cache now (trimWS l0) opNack).2 then [(trimWS l0, opNack)] else []
  | .ackBatch ls => (partition pc now opAck ls ps.cache).2.2.map (fun raw => (trimWS raw, opAck))
  | .nackBatch ls _ _ _ => (partition pc now opNack ls ps.cache).2.2.map (fun raw => (trimWS raw, opNack))
  | _ => []

/-- single operation: the store was asked about the (trimmed) id and answered ok -/
def singleOk (qc : Cfg) (pc : PCfg) (now : Int) (ps : PState) (l0 key : String) (k : LeaseKind)
    (ch : Choice) : List (String × String) :=
  if trimWS l0 == "" then [] else
  if (recent pc ps.cache now (trimWS l0) key).2 then [] else
  match Hk.step qc now ps.q (.lease k (trimWS l0)) ch with
  | some (_, .ok) => [(trimWS l0, key)]
  | _ => []

/-- batch operation: what the pull layer TREATS as succeeded at the store (`successfulLeaseIDs`):
    the pending raw ids that do not occur among the conflicts' lease ids — under their trimmed key -/
def batchClaimed (qc : Cfg) (pc : PCfg) (now : Int) (ps : PState) (ls : List String) (key : String)
    (k : LeaseKind) (ch : Choice) : List (String × String) :=
  let pending := (partition pc now key ls ps.cache).2.1
  match Hk.step qc now ps.q (.leaseBatch k pending) ch with
  | some (_, .batch _ cs) => (successfulIds pending cs).map (fun raw => (trimWS raw, key))
  | _ => []

/-- The (trimmed lease id, op key) pairs for which, in this step, the pull layer performed the store
    operation and took it as SUCCEEDED — single: the store answered ok; batch: the id was in the
    pending list handed to the store and not among the returned conflicts. -/
def claimed (qc : Cfg) (pc : PCfg) (now : Int) (ps : PState) (op : POp) (ch : Choice) : List (String × String) :=
  match op with
  | .ackSingle l0 => singleOk qc pc now ps l0 opAck .ack ch
  | .nackSingle l0 d rs dl => singleOk qc pc now ps l0 opNack (nackKind d rs dl) ch
  | .ackBatch ls => batchClaimed qc pc now ps ls opAck .ack ch
  | .nackBatch ls d rs dl => batchClaimed qc pc now ps ls opNack (nackKind d rs dl) ch
  | _ => []

/-- a cache-served answer is backed by a live entry of the cache the step started from -/
theorem hits_cached {pc : PCfg} {now : Int} {ps : PState} {op : POp} {x : String × String}
    (h : x ∈ hits pc now ps op) : ∃ exp, (x.1, x.2, exp) ∈ ps.cache ∧ now < exp := by
  cases op with
  | dequeue _ _ _ => simp [hits] at h
  | extend _ _ => simp [hits] at h
  | ackSingle l0 =>
    simp only [hits] at h
    split at h
    · rename_i hc
      simp only [Bool.and_eq_true] at hc
      simp only [List.mem_singleton] at h
      subst h
      obtain ⟨exp, he, hlt⟩ := recent_hit hc.2
      rw [trimWS_idem, trimWS_opAck] at he
      exact ⟨exp, he, hlt⟩
    · cases h
  | nackSingle l0 _ _ _ =>
    simp only [hits] at h
    split at h
    · rename_i hc
      simp only [Bool.and_eq_true] at hc
      simp only [List.mem_singleton] at h
      subst h
      obtain ⟨exp, he, hlt⟩ := recent_hit hc.2
      rw [trimWS_idem, trimWS_opNack] at he
      exact ⟨exp, he, hlt⟩
    · cases h
  | ackBatch ls =>
    simp only [hits, List.mem_map] at h
    obtain ⟨raw, hr, rfl⟩ := h
    obtain ⟨exp, he, hlt⟩ := partition_done ls _ raw hr
    rw [trimWS_opAck] at he
    exact ⟨exp, he, hlt⟩
  | nackBatch ls _ _ _ =>
    simp only [hits, List.mem_map] at h
    obtain ⟨raw, hr, rfl⟩ := h
    obtain ⟨exp, he, hlt⟩ := partition_done ls _ raw hr
    rw [trimWS_opNack] at he
    exact ⟨exp, he, hlt⟩

theorem singleOp_cache {qc : Cfg} {pc : PCfg} {now : Int} {ps ps' : PState} {l0 key : String}
    {k : LeaseKind} {ch : Choice} {r : PResp} (hkey : trimWS key = key)
    (h : singleOp qc pc now ps l0 (some key) k ch = some (ps', r)) :
    ∀ e ∈ ps'.cache, e ∈ ps.cache ∨
      ((e.1, e.2.1) ∈ singleOk qc pc now ps l0 key k ch ∧ e.2.2 = now + pc.recentTTL) := by
  intro e he
  rcases singleOp_cases h with ⟨_, rfl, _⟩ | ⟨_, _, rfl, _⟩ | ⟨hb, hmiss, q', resp, hs, rfl, _⟩
  · exact .inl he
  · simp only [lookup] at he
    exact .inl (recent_sub he)
  · simp only [lookup] at hmiss he
    cases resp with
    | ok =>
      simp only [noteOk] at he
      rcases mem_remember he with he | rfl
      · exact .inl (recent_sub he)
      · right
        have hb' : (trimWS l0 == "") = false := by simpa using hb
        simp only [singleOk, hb', hmiss, hs, trimWS_idem, hkey, Bool.false_eq_true, if_false,
          List.mem_singleton, and_self]
    | _ => simp only [noteOk] at he; exact .inl (recent_sub he)

theorem extend_cache {qc : Cfg} {pc : PCfg} {now : Int} {ps ps' : PState} {l0 : String}
    {k : LeaseKind} {ch : Choice} {r : PResp}
    (h : singleOp qc pc now ps l0 none k ch = some (ps', r)) : ps'.cache = ps.cache := by
  rcases singleOp_cases h with ⟨_, rfl, _⟩ | ⟨_, _, rfl, _⟩ | ⟨_, _, q', resp, _, rfl, _⟩
  · rfl
  · rfl
  · cases resp <;> rfl

theorem batchOp_cache {qc : Cfg} {pc : PCfg} {now : Int} {ps ps' : PState} {ls : List String} {key : String}
    {k : LeaseKind} {ch : Choice} {r : PResp} (hkey : trimWS key = key)
    (h : batchOp qc pc now ps ls key k ch = some (ps', r)) :
    ∀ e ∈ ps'.cache, e ∈ ps.cache ∨
      ((e.1, e.2.1) ∈ batchClaimed qc pc now ps ls key k ch ∧ e.2.2 = now + pc.recentTTL) := by
  intro e he
  rcases batchOp_cases h with ⟨_, rfl, _⟩ | ⟨_, q', n, cs, hs, rfl, _⟩ | ⟨_, q', resp, _, _, rfl, _⟩
  · exact .inl (partition_sub _ _ _ he)
  · rcases mem_rememberAll _ _ _ he with he | ⟨raw, hr, rfl⟩
    · exact .inl (partition_sub _ _ _ he)
    · right
      simp only [batchClaimed, hs, hkey, List.mem_map, and_true]
      exact ⟨raw, hr, rfl⟩
  · exact .inl (partition_sub _ _ _ he)

/-- one step: every cache entry afterwards was there before or was put there for an operation the
    pull layer saw succeed at the store in this very step, with expiry `now + recentTTL` -/
theorem step_cache {qc : Cfg} {pc : PCfg} {now : Int} {ps ps' : PState} {op : POp} {ch : Choice} {r : PResp}
    (h : pstep qc pc now ps op ch = some (ps', r)) :
    ∀ e ∈ ps'.cache, e ∈ ps.cache ∨
      ((e.1, e.2.1) ∈ claimed qc pc now ps op ch ∧ e.2.2 = now + pc.recentTTL) := by
  cases op with
  | dequeue route batch ttl =>
    intro e he
    simp only [pstep] at h
    generalize Hk.step qc now ps.q _ ch = s at h
    cases s with
    | none => cases h
    | some x =>
      obtain ⟨q', resp⟩ := x
      cases resp <;> (simp only at h; cases h; exact .inl he)
  | ackSingle l => simp only [pstep] at h; exact singleOp_cache trimWS_opAck h
  | ackBatch ls => simp only [pstep] at h; exact batchOp_cache trimWS_opAck h
  | nackSingle l d rs dl => simp only [pstep] at h; exact singleOp_cache trimWS_opNack h
  | nackBatch ls d rs dl => simp only [pstep] at h; exact batchOp_cache trimWS_opNack h
  | extend l b =>
    simp only [pstep] at h
    intro e he
    rw [extend_cache h] at he
    exact .inl he

/-- one element of a history: clock value, operation, the implementation's free choices -/
structure Ev where
  now : Int
  op : POp
  ch : Choice

/-- `Reach qc pc q0 h ps`: starting from queue `q0` with an EMPTY cache, the pull layer executed the
    events of `h` in order (each paired with the state it was applied to), every step was legal, the
    clock never went backwards, and the resulting state is `ps`. -/
inductive Reach (qc : Cfg) (pc : PCfg) (q0 : Q) : List (PState × Ev) → PState → Prop
  | init : Reach qc pc q0 [] { q := q0, cache := [] }
  | step {h : List (PState × Ev)} {ps ps' : PState} {e : Ev} {r : PResp} :
      Reach qc pc q0 h ps → (∀ x ∈ h, x.2.now ≤ e.now) →
      pstep qc pc e.now ps e.op e.ch = some (ps', r) → Reach qc pc q0 (h ++ [(ps, e)]) ps'

/-- **2a (`cache_sound`).** Along every run from an empty cache: every entry `(l, op, exp)` of the cache
    was put there by an earlier step of the run in which the pull layer performed the store operation
    `op` on lease `l` and took it as succeeded (`claimed`), at a time `t` with `exp = t + recentTTL`. -/
theorem cache_sound {qc : Cfg} {pc : PCfg} {q0 : Q} {h : List (PState × Ev)} {ps : PState}
    (hr : Reach qc pc q0 h ps) :
    ∀ e ∈ ps.cache, ∃ x ∈ h, (e.1, e.2.1) ∈ claimed qc pc x.2.now x.1 x.2.op x.2.ch ∧
      e.2.2 = x.2.now + pc.recentTTL := by
  induction hr with
  | init => intro e he; cases he
  | step hreach _ hstep ih =>
    intro e he
    rcases step_cache hstep e he with hold | ⟨hc, hexp⟩
    · obtain ⟨x, hx, hc, hexp⟩ := ih e hold
      exact ⟨x, List.mem_append_left _ hx, hc, hexp⟩
    · exact ⟨_, List.mem_append_right _ List.mem_cons_self, hc, hexp⟩

/-- **2b.** Whenever a step (at time `now`, not earlier than the run so far) answers success for lease
    `l` from the cache, an EARLIER step of the same run performed the same kind of operation on `l`
    at the store and took it as succeeded, less than `recentTTL` earlier. -/
theorem cached_answer_only_after_claim {qc : Cfg} {pc : PCfg} {q0 : Q} {h : List (PState × Ev)}
    {ps : PState} (hr : Reach qc pc q0 h ps) {now : Int} (hmono : ∀ x ∈ h, x.2.now ≤ now)
    {op : POp} {l key : String} (hx : (l, key) ∈ hits pc now ps op) :
    ∃ x ∈ h, (l, key) ∈ claimed qc pc x.2.now x.1 x.2.op x.2.ch ∧
      x.2.now ≤ now ∧ now - x.2.now < pc.recentTTL := by
  obtain ⟨exp, he, hlt⟩ := hits_cached hx
  obtain ⟨x, hxh, hc, hexp⟩ := cache_sound hr _ he
  refine ⟨x, hxh, hc, hmono x hxh, ?_⟩
  simp only at hexp
  omega

/-! ### what the pull layer takes as a store success vs. what IS a store success -/

theorem holds_iff {l : String} {x : Msg} : holds l x = true ↔ x.st = .leased ∧ x.lease = l := by
  simp [holds]

/-- the store's single lease mutation, for the ids the pull layer hands over (already trimmed) -/
theorem step_lease_eq (c : Cfg) (now : Int) (q : Q) (k : LeaseKind) (l : String) (ch : Choice)
    (hk : ∀ d, k = .extend d → 0 < d) (hl : trimWS l = l) :
    Hk.step c now q (.lease k l) ch =
      some ({ q with msgs := (leaseOne c now k l q.msgs).1 },
            match (leaseOne c now k l q.msgs).2 with | none => .ok | some e => .err e) := by
  have hl' : (if c.memory = true then l else trimWS l) = l := by split <;> simp [hl]
  have fin : ∀ p : List Msg × Option Err,
      (match p with
        | (ms, e) => some (({ q with msgs := ms } : Q), (match e with | none => Resp.ok | some e => Resp.err e))) =
      some ({ q with msgs := p.1 }, match p.2 with | none => .ok | some e => .err e) := by
    intro p; obtain ⟨ms, e⟩ := p; cases e <;> rfl
  cases k with
  | extend d =>
    have : ¬ d ≤ 0 := by have := hk d rfl; omega
    simp only [step, this, if_false, hl']
    first | rfl | exact fin _
  | ack => simp only [step, hl']; first | rfl | exact fin _
  | nack d => simp only [step, hl']; first | rfl | exact fin _
  | markDead r => simp only [step, hl']; first | rfl | exact fin _

theorem step_leaseBatch_eq (c : Cfg) (now : Int) (q : Q) (k : LeaseKind) (ls : List String) (ch : Choice) :
    Hk.step c now q (.leaseBatch k ls) ch =
      some ({ q with msgs := (leaseBatchFold c now k ls q.msgs 0 []).1 },
            .batch (leaseBatchFold c now k ls q.msgs 0 []).2.1 (leaseBatchFold c now k ls q.msgs 0 []).2.2) := by
  simp only [step]

/-- a successful single lease mutation found an unexpired holder -/
theorem leaseOne_ok {c : Cfg} {now : Int} {k : LeaseKind} {l : String} {ms : List Msg}
    (h : (leaseOne c now k l ms).2 = none) :
    ∃ m ∈ ms, m.st = .leased ∧ m.lease = l ∧ now < m.luntil := by
  unfold leaseOne at h
  split at h
  · cases h
  · split at h
    · cases h
    · rename_i m hm
      split at h
      · cases h
      · rename_i hlt
        have := holds_iff.1 (List.find?_some hm)
        exact ⟨m, List.mem_of_find?_eq_some hm, this.1, this.2, by omega⟩

/-- ack / nack / mark-dead never leave a message leased, so whoever is leased afterwards was there
    (unchanged) before -/
theorem leaseOne_leased_back {c : Cfg} {now : Int} {k : LeaseKind} (hk : ∀ d, k ≠ .extend d)
    {l : String} {ms : List Msg} {x : Msg}
    (hx : x ∈ (leaseOne c now k l ms).1) (hst : x.st = .leased) : x ∈ ms := by
  unfold leaseOne at hx
  split at hx
  · exact hx
  · split at hx
    · exact hx
    · split at hx
      · simp only [List.mem_map] at hx
        obtain ⟨y, hy, rfl⟩ := hx
        split at hst
        · simp [release] at hst
        · rename_i hn; simp only [hn, Bool.false_eq_true, if_false]; exact hy
      · simp only [List.mem_filterMap] at hx
        obtain ⟨y, hy, hyx⟩ := hx
        split at hyx
        · exfalso
          cases k with
          | extend d => exact hk d rfl
          | ack =>
            simp only [applyLease] at hyx
            split at hyx
            · cases hyx; cases hst
            · cases hyx
          | nack d => simp only [applyLease] at hyx; cases hyx; cases hst
          | markDead r => simp only [applyLease] at hyx; cases hyx; cases hst
        · cases hyx; exact hy

/-- the (trimmed) ids of a store batch whose individual lease mutation SUCCEEDED, in order -/
def batchOk (c : Cfg) (now : Int) (k : LeaseKind) : List String → List Msg → List String
  | [], _ => []
  | raw :: rest, ms =>
    if trimWS raw == "" then batchOk c now k rest ms else
    match (leaseOne c now k (trimWS raw) ms).2 with
    | none => trimWS raw :: batchOk c now k rest (leaseOne c now k (trimWS raw) ms).1
    | some _ => batchOk c now k rest (leaseOne c now k (trimWS raw) ms).1

theorem fold_cons_blank {c : Cfg} {now : Int} {k : LeaseKind} {raw : String} {rest : List String}
    {ms : List Msg} {n : Nat} {cs : List Conflict} (h : (trimWS raw == "") = true) :
    leaseBatchFold c now k (raw :: rest) ms n cs = leaseBatchFold c now k rest ms n (cs ++ [⟨raw, false⟩]) := by
  simp only [leaseBatchFold, h, if_true]

theorem fold_cons_ok {c : Cfg} {now : Int} {k : LeaseKind} {raw : String} {rest : List String}
    {ms : List Msg} {n : Nat} {cs : List Conflict} (h : (trimWS raw == "") = false)
    (ho : (leaseOne c now k (trimWS raw) ms).2 = none) :
    leaseBatchFold c now k (raw :: rest) ms n cs =
      leaseBatchFold c now k rest (leaseOne c now k (trimWS raw) ms).1 (n + 1) cs := by
  simp only [leaseBatchFold, h, Bool.false_eq_true, if_false]
  generalize leaseOne c now k (trimWS raw) ms = p at ho
  obtain ⟨ms', e⟩ := p
  simp only at ho
  subst ho
  rfl

theorem fold_cons_err {c : Cfg} {now : Int} {k : LeaseKind} {raw : String} {rest : List String}
    {ms : List Msg} {n : Nat} {cs : List Conflict} (h : (trimWS raw == "") = false) {e : Err}
    (ho : (leaseOne c now k (trimWS raw) ms).2 = some e) :
    ∃ b, leaseBatchFold c now k (raw :: rest) ms n cs =
      leaseBatchFold c now k rest (leaseOne c now k (trimWS raw) ms).1 n (cs ++ [⟨trimWS raw, b⟩]) := by
  simp only [leaseBatchFold, h, Bool.false_eq_true, if_false]
  generalize leaseOne c now k (trimWS raw) ms = p at ho
  obtain ⟨ms', e'⟩ := p
  simp only at ho
  subst ho
  cases e <;> first | exact ⟨true, rfl⟩ | exact ⟨false, rfl⟩

/-- conflicts only accumulate -/
theorem fold_conflicts_mono (c : Cfg) (now : Int) (k : LeaseKind) :
    ∀ (ls : List String) (ms : List Msg) (n : Nat) (cs : List Conflict) (x : Conflict),
      x ∈ cs → x ∈ (leaseBatchFold c now k ls ms n cs).2.2
  | [], _, _, _, _, h => h
  | raw :: rest, ms, n, cs, x, h => by
    cases hb : (trimWS raw == "") with
    | true => rw [fold_cons_blank hb]; exact fold_conflicts_mono c now k rest _ _ _ x (List.mem_append_left _ h)
    | false =>
      cases ho : (leaseOne c now k (trimWS raw) ms).2 with
      | none => rw [fold_cons_ok hb ho]; exact fold_conflicts_mono c now k rest _ _ _ x h
      | some e =>
        obtain ⟨b, hf⟩ := fold_cons_err (rest := rest) (n := n) (cs := cs) hb ho
        rw [hf]; exact fold_conflicts_mono c now k rest _ _ _ x (List.mem_append_left _ h)

/-- the store's `succeeded` counts exactly the ids of `batchOk` -/
theorem fold_count (c : Cfg) (now : Int) (k : LeaseKind) :
    ∀ (ls : List String) (ms : List Msg) (n : Nat) (cs : List Conflict),
      (leaseBatchFold c now k ls ms n cs).2.1 = n + (batchOk c now k ls ms).length
  | [], _, _, _ => by simp [leaseBatchFold, batchOk]
  | raw :: rest, ms, n, cs => by
    cases hb : (trimWS raw == "") with
    | true => rw [fold_cons_blank hb, fold_count c now k rest]; simp only [batchOk, hb, if_true]
    | false =>
      cases ho : (leaseOne c now k (trimWS raw) ms).2 with
      | none =>
        rw [fold_cons_ok hb ho, fold_count c now k rest]
        simp only [batchOk, hb, ho, Bool.false_eq_true, if_false, List.length_cons]
        omega
      | some e =>
        obtain ⟨b, hf⟩ := fold_cons_err (rest := rest) (n := n) (cs := cs) hb ho
        rw [hf, fold_count c now k rest]
        simp only [batchOk, hb, ho, Bool.false_eq_true, if_false]

/-- every id of a store batch either succeeded or is reported among the conflicts — a non-blank id
    under its TRIMMED form, a blank id as given -/
theorem fold_cover (c : Cfg) (now : Int) (k : LeaseKind) :
    ∀ (ls : List String) (ms : List Msg) (n : Nat) (cs : List Conflict) (raw : String), raw ∈ ls →
      trimWS raw ∈ batchOk c now k ls ms ∨
      (if trimWS raw == "" then raw else trimWS raw) ∈ (leaseBatchFold c now k ls ms n cs).2.2.map (·.lease)
  | [], _, _, _, _, h => by cases h
  | x :: rest, ms, n, cs, raw, h => by
    cases hb : (trimWS x == "") with
    | true =>
      rw [fold_cons_blank hb]
      rcases List.mem_cons.1 h with rfl | h
      · right
        rw [hb]
        exact List.mem_map.2 ⟨⟨raw, false⟩, fold_conflicts_mono c now k rest _ _ _ _ (by simp), by simp⟩
      · rcases fold_cover c now k rest ms n (cs ++ [⟨x, false⟩]) raw h with h | h
        · left; simp only [batchOk, hb, if_true]; exact h
        · exact .inr h
    | false =>
      cases ho : (leaseOne c now k (trimWS x) ms).2 with
      | none =>
        rw [fold_cons_ok hb ho]
        rcases List.mem_cons.1 h with rfl | h
        · left; simp only [batchOk, hb, ho, Bool.false_eq_true, if_false]; exact List.mem_cons_self
        · rcases fold_cover c now k rest (leaseOne c now k (trimWS x) ms).1 (n + 1) cs raw h with h | h
          · left; simp only [batchOk, hb, ho, Bool.false_eq_true, if_false]; exact List.mem_cons_of_mem _ h
          · exact .inr h
      | some e =>
        obtain ⟨b, hf⟩ := fold_cons_err (rest := rest) (n := n) (cs := cs) hb ho
        rw [hf]
        rcases List.mem_cons.1 h with rfl | h
        · right
          rw [hb]
          exact List.mem_map.2 ⟨⟨trimWS raw, b⟩, fold_conflicts_mono c now k rest _ _ _ _ (by simp), by simp⟩
        · rcases fold_cover c now k rest (leaseOne c now k (trimWS x) ms).1 n (cs ++ [⟨trimWS x, b⟩]) raw h with h | h
          · left; simp only [batchOk, hb, ho, Bool.false_eq_true, if_false]; exact h
          · exact .inr h

/-- a genuine batch success found an unexpired holder in the state the batch started from -/
theorem batchOk_held {c : Cfg} {now : Int} {k : LeaseKind} (hk : ∀ d, k ≠ .extend d) {l : String} :
    ∀ (ls : List String) (ms : List Msg), l ∈ batchOk c now k ls ms →
      ∃ m ∈ ms, m.st = .leased ∧ m.lease = l ∧ now < m.luntil
  | [], _, h => by cases h
  | raw :: rest, ms, h => by
    cases hb : (trimWS raw == "") with
    | true =>
      simp only [batchOk, hb, if_true] at h
      exact batchOk_held hk rest ms h
    | false =>
      have back : l ∈ batchOk c now k rest (leaseOne c now k (trimWS raw) ms).1 →
          ∃ m ∈ ms, m.st = .leased ∧ m.lease = l ∧ now < m.luntil := by
        intro h
        obtain ⟨m, hm, hst, hl, hlt⟩ := batchOk_held hk rest _ h
        exact ⟨m, leaseOne_leased_back hk hm hst, hst, hl, hlt⟩
      cases ho : (leaseOne c now k (trimWS raw) ms).2 with
      | none =>
        simp only [batchOk, hb, ho, Bool.false_eq_true, if_false] at h
        rcases List.mem_cons.1 h with rfl | h
        · exact leaseOne_ok ho
        · exact back h
      | some e =>
        simp only [batchOk, hb, ho, Bool.false_eq_true, if_false] at h
        exact back h

/-- batch operation: the (trimmed) pending ids whose lease mutation succeeded at the store -/
def batchGenuine (qc : Cfg) (pc : PCfg) (now : Int) (ps : PState) (ls : List String) (key : String)
    (k : LeaseKind) : List (String × String) :=
  (batchOk qc now k (partition pc now key ls ps.cache).2.1 ps.q.msgs).map (fun l => (l, key))

/-- The (trimmed lease id, op key) pairs whose lease mutation GENUINELY succeeded at the store in this
    step (single: the store answered ok; batch: the store's per-id mutation succeeded). -/
def genuine (qc : Cfg) (pc : PCfg) (now : Int) (ps : PState) (op : POp) (ch : Choice) : List (String × String) :=
  match op with
  | .ackSingle l0 => singleOk qc pc now ps l0 opAck .ack ch
  | .nackSingle l0 d rs dl => singleOk qc pc now ps l0 opNack (nackKind d rs dl) ch
  | .ackBatch ls => batchGenuine qc pc now ps ls opAck .ack
  | .nackBatch ls d rs dl => batchGenuine qc pc now ps ls opNack (nackKind d rs dl)
  | _ => []

/-- batch ids carry no surrounding white space (what `normalizeLeaseIDs` of the HTTP layer guarantees,
    see `normIds_trimmed`) -/
def TrimmedIds : POp → Prop
  | .ackBatch ls => ∀ raw ∈ ls, trimWS raw = raw
  | .nackBatch ls _ _ _ => ∀ raw ∈ ls, trimWS raw = raw
  | _ => True

theorem nackKind_noext (d : Bool) (rs : String) (dl : Int) : ∀ x, nackKind d rs dl ≠ .extend x := by
  intro x; unfold nackKind; split <;> (intro h; cases h)

theorem singleOk_held {qc : Cfg} {pc : PCfg} {now : Int} {ps : PState} {l0 key : String} {k : LeaseKind}
    {ch : Choice} (hk : ∀ d, k ≠ .extend d) {x : String × String}
    (h : x ∈ singleOk qc pc now ps l0 key k ch) :
    ∃ m ∈ ps.q.msgs, m.st = .leased ∧ m.lease = x.1 ∧ now < m.luntil := by
  unfold singleOk at h
  split at h
  · cases h
  · split at h
    · cases h
    · rw [step_lease_eq qc now ps.q k (trimWS l0) ch (fun d hd => absurd hd (hk d)) (trimWS_idem l0)] at h
      cases ho : (leaseOne qc now k (trimWS l0) ps.q.msgs).2 with
      | none =>
        simp only [ho, List.mem_singleton] at h
        subst h
        exact leaseOne_ok ho
      | some e => simp only [ho] at h; cases h

/-- **2c.** a genuine store success means: at that moment some message WAS leased under that id, unexpired -/
theorem genuine_held {qc : Cfg} {pc : PCfg} {now : Int} {ps : PState} {op : POp} {ch : Choice}
    {x : String × String} (h : x ∈ genuine qc pc now ps op ch) :
    ∃ m ∈ ps.q.msgs, m.st = .leased ∧ m.lease = x.1 ∧ now < m.luntil := by
  cases op with
  | dequeue _ _ _ => cases h
  | extend _ _ => cases h
  | ackSingle l0 => exact singleOk_held (by intro d hd; cases hd) h
  | nackSingle l0 d rs dl => exact singleOk_held (nackKind_noext d rs dl) h
  | ackBatch ls =>
    simp only [genuine, batchGenuine, List.mem_map] at h
    obtain ⟨l, hl, rfl⟩ := h
    exact batchOk_held (by intro d hd; cases hd) _ _ hl
  | nackBatch ls d rs dl =>
    simp only [genuine, batchGenuine, List.mem_map] at h
    obtain ⟨l, hl, rfl⟩ := h
    exact batchOk_held (nackKind_noext d rs dl) _ _ hl

theorem batchClaimed_genuine {qc : Cfg} {pc : PCfg} {now : Int} {ps : PState} {ls : List String} {key : String}
    {k : LeaseKind} {ch : Choice} (ht : ∀ raw ∈ ls, trimWS raw = raw) {x : String × String}
    (h : x ∈ batchClaimed qc pc now ps ls key k ch) : x ∈ batchGenuine qc pc now ps ls key k := by
  simp only [batchClaimed, step_leaseBatch_eq, List.mem_map, successfulIds, List.mem_filter] at h
  obtain ⟨raw, ⟨hp, hnc⟩, rfl⟩ := h
  have htr := ht raw (partition_pending_sub _ _ _ hp)
  simp only [batchGenuine, List.mem_map]
  refine ⟨trimWS raw, ?_, rfl⟩
  rcases fold_cover qc now k _ ps.q.msgs 0 [] raw hp with h | h
  · exact h
  · exfalso
    rw [htr] at h
    simp only [ite_self] at h
    simp only [Bool.not_eq_true', List.contains_eq_mem, decide_eq_false_iff_not] at hnc
    exact hnc h

/-- **2d.** With trimmed batch ids, everything the pull layer takes as a store success IS one. -/
theorem claimed_genuine {qc : Cfg} {pc : PCfg} {now : Int} {ps : PState} {op : POp} {ch : Choice}
    (ht : TrimmedIds op) {x : String × String} (h : x ∈ claimed qc pc now ps op ch) :
    x ∈ genuine qc pc now ps op ch := by
  cases op with
  | dequeue _ _ _ => cases h
  | extend _ _ => cases h
  | ackSingle l0 => exact h
  | nackSingle l0 d rs dl => exact h
  | ackBatch ls => exact batchClaimed_genuine (ch := ch) ht h
  | nackBatch ls d rs dl => exact batchClaimed_genuine (ch := ch) ht h

/-- **2 (`idempotent_answer_only_after_success`).** Along every run from an empty cache in which batch
    ids are trimmed (as the HTTP layer's `normalizeLeaseIDs` guarantees): whenever a step, at a time
    `now` not earlier than the run so far, answers success for lease `l` WITHOUT asking the store (single
    204 from the cache, or a cached id counted in a batch's `succeeded`), an EARLIER step of the run
    performed the same kind of operation on `l` and it genuinely SUCCEEDED at the store — a message was
    leased under `l`, unexpired, at that moment — less than `recentTTL` earlier. -/
theorem idempotent_answer_only_after_success {qc : Cfg} {pc : PCfg} {q0 : Q} {h : List (PState × Ev)}
    {ps : PState} (hr : Reach qc pc q0 h ps) (htrim : ∀ x ∈ h, TrimmedIds x.2.op)
    {now : Int} (hmono : ∀ x ∈ h, x.2.now ≤ now)
    {op : POp} {l key : String} (hx : (l, key) ∈ hits pc now ps op) :
    ∃ x ∈ h, (l, key) ∈ genuine qc pc x.2.now x.1 x.2.op x.2.ch ∧
      (∃ m ∈ x.1.q.msgs, m.st = .leased ∧ m.lease = l ∧ x.2.now < m.luntil) ∧
      x.2.now ≤ now ∧ now - x.2.now < pc.recentTTL := by
  obtain ⟨x, hxh, hc, hle, hlt⟩ := cached_answer_only_after_claim hr hmono hx
  have hg := claimed_genuine (htrim x hxh) hc
  exact ⟨x, hxh, hg, genuine_held hg, hle, hlt⟩

/-! ### `hits` and `genuine` are what the responses report -/

/-- a single ack is answered 204 without a store call exactly when it is a cache hit -/
theorem ackSingle_cached_iff {qc : Cfg} {pc : PCfg} {now : Int} {ps ps' : PState} {l0 : String}
    {ch : Choice} {r : PResp} (h : pstep qc pc now ps (.ackSingle l0) ch = some (ps', r)) :
    (r.status = 204 ∧ r.storeCalls = 0) ↔ hits pc now ps (.ackSingle l0) = [(trimWS l0, opAck)] := by
  simp only [pstep] at h
  rcases singleOp_cases h with ⟨hb, _, rfl⟩ | ⟨hb, hhit, _, rfl⟩ | ⟨hb, hmiss, _, _, _, _, rfl⟩
  · simp [hits, hb]
  · simp only [lookup] at hhit
    simp [hits, hb, hhit]
  · simp only [lookup] at hmiss
    simp [hits, hmiss]

theorem nackSingle_cached_iff {qc : Cfg} {pc : PCfg} {now : Int} {ps ps' : PState} {l0 : String}
    {d : Bool} {rs : String} {dl : Int}
    {ch : Choice} {r : PResp} (h : pstep qc pc now ps (.nackSingle l0 d rs dl) ch = some (ps', r)) :
    (r.status = 204 ∧ r.storeCalls = 0) ↔ hits pc now ps (.nackSingle l0 d rs dl) = [(trimWS l0, opNack)] := by
  simp only [pstep] at h
  rcases singleOp_cases h with ⟨hb, _, rfl⟩ | ⟨hb, hhit, _, rfl⟩ | ⟨hb, hmiss, _, _, _, _, rfl⟩
  · simp [hits, hb]
  · simp only [lookup] at hhit
    simp [hits, hb, hhit]
  · simp only [lookup] at hmiss
    simp [hits, hmiss]

theorem batchOp_succeeded {qc : Cfg} {pc : PCfg} {now : Int} {ps ps' : PState} {ls : List String}
    {key : String} {k : LeaseKind} {ch : Choice} {r : PResp}
    (h : batchOp qc pc now ps ls key k ch = some (ps', r)) :
    r.status = 200 ∧
    r.succeeded = (partition pc now key ls ps.cache).2.2.length + (batchGenuine qc pc now ps ls key k).length := by
  rcases batchOp_cases h with ⟨he, _, rfl⟩ | ⟨_, q', n, cs, hs, _, rfl⟩ | ⟨_, q', resp, hs, hne, _, _⟩
  · simp [batchGenuine, he, batchOk]
  · rw [step_leaseBatch_eq] at hs
    simp only [Option.some.injEq, Prod.mk.injEq, Resp.batch.injEq] at hs
    obtain ⟨_, hn, _⟩ := hs
    refine ⟨rfl, ?_⟩
    simp only [batchGenuine, List.length_map]
    rw [← hn, fold_count]
    omega
  · rw [step_leaseBatch_eq] at hs
    simp only [Option.some.injEq, Prod.mk.injEq] at hs
    exact absurd hs.2.symm (hne _ _)

/-- **2e.** a batch always answers 200, and its `succeeded` is exactly
    (#ids answered from the cache) + (#ids whose store mutation genuinely succeeded) -/
theorem batch_succeeded_split {qc : Cfg} {pc : PCfg} {now : Int} {ps ps' : PState} {op : POp}
    {ch : Choice} {r : PResp} (hop : (∃ ls, op = .ackBatch ls) ∨ ∃ ls d rs dl, op = .nackBatch ls d rs dl)
    (h : pstep qc pc now ps op ch = some (ps', r)) :
    r.status = 200 ∧ r.succeeded = (hits pc now ps op).length + (genuine qc pc now ps op ch).length := by
  rcases hop with ⟨ls, rfl⟩ | ⟨ls, d, rs, dl, rfl⟩
  · simp only [pstep] at h
    simpa [hits, genuine] using batchOp_succeeded h
  · simp only [pstep] at h
    simpa [hits, genuine] using batchOp_succeeded h

/-! ### the executable run and its link to `Reach` -/

/-- execute a list of events; `none` when some step is illegal. The history pairs every event with
    the state it was applied to and the response it got. -/
def run (qc : Cfg) (pc : PCfg) : PState → List Ev → Option (List (PState × Ev × PResp) × PState)
  | ps, [] => some ([], ps)
  | ps, e :: es =>
    match pstep qc pc e.now ps e.op e.ch with
    | none => none
    | some (ps', r) =>
      match run qc pc ps' es with
      | none => none
      | some (h, pf) => some ((ps, e, r) :: h, pf)

/-- clock values never go backwards -/
def Monotone (evs : List Ev) : Prop := evs.Pairwise (fun a b => a.now ≤ b.now)

theorem run_reach_aux {qc : Cfg} {pc : PCfg} {q0 : Q} :
    ∀ (evs : List Ev) (h0 : List (PState × Ev)) (ps0 : PState) (h : List (PState × Ev × PResp)) (ps : PState),
      Reach qc pc q0 h0 ps0 → (∀ x ∈ h0, ∀ e ∈ evs, x.2.now ≤ e.now) → Monotone evs →
      run qc pc ps0 evs = some (h, ps) →
      Reach qc pc q0 (h0 ++ h.map (fun x => (x.1, x.2.1))) ps ∧ h.map (fun x => x.2.1) = evs
  | [], h0, ps0, h, ps, hr, _, _, hrun => by
    simp only [run, Option.some.injEq, Prod.mk.injEq] at hrun
    obtain ⟨rfl, rfl⟩ := hrun
    simpa using hr
  | e :: es, h0, ps0, h, ps, hr, hle, hm, hrun => by
    simp only [run] at hrun
    cases hs : pstep qc pc e.now ps0 e.op e.ch with
    | none => simp only [hs] at hrun; cases hrun
    | some x =>
      obtain ⟨ps1, r⟩ := x
      simp only [hs] at hrun
      cases hrest : run qc pc ps1 es with
      | none => simp only [hrest] at hrun; cases hrun
      | some y =>
        obtain ⟨h', pf⟩ := y
        simp only [hrest, Option.some.injEq, Prod.mk.injEq] at hrun
        obtain ⟨rfl, rfl⟩ := hrun
        have hm' := List.pairwise_cons.1 hm
        have hr1 : Reach qc pc q0 (h0 ++ [(ps0, e)]) ps1 :=
          Reach.step hr (fun x hx => hle x hx e List.mem_cons_self) hs
        have hle1 : ∀ x ∈ h0 ++ [(ps0, e)], ∀ e' ∈ es, x.2.now ≤ e'.now := by
          intro x hx e' he'
          rcases List.mem_append.1 hx with hx | hx
          · exact hle x hx e' (List.mem_cons_of_mem _ he')
          · simp only [List.mem_singleton] at hx; subst hx; exact hm'.1 e' he'
        obtain ⟨hR, hE⟩ := run_reach_aux es _ ps1 h' _ hr1 hle1 hm'.2 hrest
        constructor
        · simpa [List.append_assoc] using hR
        · simp [hE]

/-- every monotone executable run from an empty cache is a `Reach` history -/
theorem run_reach {qc : Cfg} {pc : PCfg} {q0 : Q} {evs : List Ev} {h : List (PState × Ev × PResp)} {ps : PState}
    (hm : Monotone evs) (hrun : run qc pc { q := q0, cache := [] } evs = some (h, ps)) :
    Reach qc pc q0 (h.map (fun x => (x.1, x.2.1))) ps ∧ h.map (fun x => x.2.1) = evs := by
  have := run_reach_aux evs [] _ h ps (Reach.init (qc := qc) (pc := pc) (q0 := q0)) (by simp) hm hrun
  simpa using this

/-! ## 3. a single operation on a lease nobody holds unexpired -/

/-- no message is leased-and-unexpired under `l` -/
def NotHeld (now : Int) (l : String) (ms : List Msg) : Prop :=
  ∀ m ∈ ms, ¬ (m.st = .leased ∧ m.lease = l ∧ now < m.luntil)

/-- releases exactly the messages leased under `l` whose lease has expired -/
def releaseExpired (now : Int) (l : String) (ms : List Msg) : List Msg :=
  ms.map (fun m => if holds l m && expired now m then release now m else m)

theorem leaseOne_stale {c : Cfg} {now : Int} {k : LeaseKind} {l : String} {ms : List Msg}
    (hl : l ≠ "") (hno : NotHeld now l ms) :
    ∃ e, (e = .leaseNotFound ∨ e = .leaseExpired) ∧
      leaseOne c now k l ms = (releaseExpired now l ms, some e) := by
  have hexp : ∀ x ∈ ms, holds l x = true → expired now x = true := by
    intro x hx hh
    have hh' := holds_iff.1 hh
    have := hno x hx
    simp only [expired, hh'.1, beq_self_eq_true, Bool.true_and, decide_eq_true_eq]
    have hn : ¬ now < x.luntil := fun hlt => this ⟨hh'.1, hh'.2, hlt⟩
    omega
  have hmap : releaseExpired now l ms = ms.map (fun x => if holds l x then release now x else x) := by
    unfold releaseExpired
    apply List.map_congr_left
    intro x hx
    cases hh : holds l x with
    | false => simp
    | true => simp [hexp x hx hh]
  have hl' : (l == "") = false := by simpa using hl
  unfold leaseOne
  simp only [hl', Bool.false_eq_true, if_false]
  cases hf : ms.find? (holds l) with
  | none =>
    refine ⟨.leaseNotFound, .inl rfl, ?_⟩
    simp only [Prod.mk.injEq, and_true]
    rw [hmap]
    have : ∀ x ∈ ms, holds l x = false := by
      intro x hx
      have := List.find?_eq_none.1 hf x hx
      simpa using this
    symm
    calc ms.map (fun x => if holds l x then release now x else x) = ms.map id := by
          apply List.map_congr_left
          intro x hx
          simp [this x hx]
      _ = ms := List.map_id _
  | some m =>
    refine ⟨.leaseExpired, .inr rfl, ?_⟩
    have hm := List.mem_of_find?_eq_some hf
    have hh := List.find?_some hf
    have := hexp m hm hh
    simp only [expired, Bool.and_eq_true, decide_eq_true_eq] at this
    simp only [this.2, if_true, hmap]

/-- the single operations and their (raw) lease id -/
def singleId : POp → Option String
  | .ackSingle l0 => some l0
  | .nackSingle l0 _ _ _ => some l0
  | .extend l0 b => if 0 < b then some l0 else none
  | _ => none

theorem noteOk_err {pc : PCfg} {c : Cache} {now : Int} {l : String} {e : Err} {key : Option String} :
    noteOk pc c now l (.err e) key = c := by
  cases key <;> rfl

theorem lookup_some {pc : PCfg} {c : Cache} {now : Int} {l op : String} :
    lookup pc c now l (some op) = recent pc c now l op := rfl

theorem lookup_none {pc : PCfg} {c : Cache} {now : Int} {l : String} :
    lookup pc c now l none = (c, false) := rfl

theorem singleOp_stale {qc : Cfg} {pc : PCfg} {now : Int} {ps : PState} {l0 : String} {key : Option String}
    {k : LeaseKind} {ch : Choice} (hk : ∀ d, k = .extend d → 0 < d)
    (hl : trimWS l0 ≠ "") (hmiss : (lookup pc ps.cache now (trimWS l0) key).2 = false)
    (hno : NotHeld now (trimWS l0) ps.q.msgs) :
    ∃ ps' r, singleOp qc pc now ps l0 key k ch = some (ps', r) ∧ r.status = 409 ∧ r.storeCalls = 1 ∧
      ps'.q = { ps.q with msgs := releaseExpired now (trimWS l0) ps.q.msgs } ∧
      ps'.cache = (lookup pc ps.cache now (trimWS l0) key).1 := by
  obtain ⟨e, he, hone⟩ := leaseOne_stale (c := qc) (k := k) hl hno
  have hl' : (trimWS l0 == "") = false := by simpa using hl
  unfold singleOp
  simp only [hl', hmiss, Bool.false_eq_true, if_false,
    step_lease_eq qc now ps.q k (trimWS l0) ch hk (trimWS_idem l0), hone]
  have hst : singleStatus (Resp.err e) = 409 := by rcases he with rfl | rfl <;> rfl
  simp only [noteOk_err, hst]
  exact ⟨_, _, rfl, rfl, rfl, rfl, rfl⟩

/-- a lease id without any cache entry is never answered from the cache -/
theorem recent_miss {pc : PCfg} {c : Cache} {now : Int} {l op : String}
    (h : ∀ exp, (trimWS l, trimWS op, exp) ∉ c) : (recent pc c now l op).2 = false := by
  cases hr : (recent pc c now l op).2 with
  | false => rfl
  | true =>
    obtain ⟨exp, he, _⟩ := recent_hit hr
    exact absurd he (h exp)

/-- **3 (`stale_single_conflict`).** For `ackSingle`, `nackSingle` and `extend` (by > 0) with a non-blank
    trimmed id `l` that has no entry in the cache: if NO message is leased-and-unexpired under `l`, the
    step is legal, performs exactly one store call, answers **409**, and the queue afterwards differs from
    the queue before at most by `Hk.release`-ing the messages that were leased under `l` with an EXPIRED
    lease (`releaseExpired`); nothing else changes (other queue fields included).  The cache is only
    pruned (no entry is added).
    No uniqueness / `Hk.Inv` hypothesis is needed. -/
theorem stale_single_conflict {qc : Cfg} {pc : PCfg} {now : Int} {ps : PState} {op : POp} {l0 : String}
    {ch : Choice} (hop : singleId op = some l0) (hl : trimWS l0 ≠ "")
    (hcache : ∀ key exp, (trimWS l0, key, exp) ∉ ps.cache)
    (hno : NotHeld now (trimWS l0) ps.q.msgs) :
    ∃ ps' r, pstep qc pc now ps op ch = some (ps', r) ∧ r.status = 409 ∧ r.storeCalls = 1 ∧
      ps'.q = { ps.q with msgs := releaseExpired now (trimWS l0) ps.q.msgs } ∧
      (∀ e ∈ ps'.cache, e ∈ ps.cache) := by
  have hmiss : ∀ key, (lookup pc ps.cache now (trimWS l0) key).2 = false := by
    intro key
    cases key with
    | none => rw [lookup_none]
    | some op => rw [lookup_some]; exact recent_miss (fun exp => by rw [trimWS_idem]; exact hcache _ exp)
  have hsub : ∀ key, ∀ e ∈ (lookup pc ps.cache now (trimWS l0) key).1, e ∈ ps.cache := by
    intro key e he
    cases key with
    | none => rw [lookup_none] at he; exact he
    | some op => rw [lookup_some] at he; exact recent_sub he
  cases op with
  | dequeue _ _ _ => cases hop
  | ackBatch _ => cases hop
  | nackBatch _ _ _ _ => cases hop
  | ackSingle l =>
    simp only [singleId, Option.some.injEq] at hop; subst hop
    obtain ⟨ps', r, h, h1, h2, h3, h4⟩ :=
      singleOp_stale (qc := qc) (k := .ack) (ch := ch) (by intro d hd; cases hd) hl (hmiss (some opAck)) hno
    exact ⟨ps', r, by simp only [pstep]; exact h, h1, h2, h3, by rw [h4]; exact hsub _⟩
  | nackSingle l d rs dl =>
    simp only [singleId, Option.some.injEq] at hop; subst hop
    obtain ⟨ps', r, h, h1, h2, h3, h4⟩ :=
      singleOp_stale (qc := qc) (k := nackKind d rs dl) (ch := ch)
        (by intro x hx; exact absurd hx (nackKind_noext d rs dl x)) hl (hmiss (some opNack)) hno
    exact ⟨ps', r, by simp only [pstep]; exact h, h1, h2, h3, by rw [h4]; exact hsub _⟩
  | extend l b =>
    simp only [singleId] at hop
    split at hop
    · rename_i hb
      simp only [Option.some.injEq] at hop; subst hop
      obtain ⟨ps', r, h, h1, h2, h3, h4⟩ :=
        singleOp_stale (qc := qc) (k := .extend b) (ch := ch)
          (by intro x hx; cases hx; exact hb) hl (hmiss none) hno
      exact ⟨ps', r, by simp only [pstep]; exact h, h1, h2, h3, by rw [h4]; exact hsub _⟩
    · cases hop

/-- what `releaseExpired` does to each message -/
theorem releaseExpired_spec (now : Int) (l : String) (ms : List Msg) :
    (releaseExpired now l ms).length = ms.length ∧
    ∀ m' ∈ releaseExpired now l ms, m' ∈ ms ∨
      ∃ m ∈ ms, m.st = .leased ∧ m.lease = l ∧ m.luntil ≤ now ∧ m' = release now m := by
  constructor
  · simp [releaseExpired]
  · intro m' hm'
    simp only [releaseExpired, List.mem_map] at hm'
    obtain ⟨m, hm, rfl⟩ := hm'
    split
    · rename_i hc
      simp only [Bool.and_eq_true, expired, beq_iff_eq, decide_eq_true_eq] at hc
      have := holds_iff.1 hc.1
      exact .inr ⟨m, hm, this.1, this.2, hc.2.2, rfl⟩
    · exact .inl hm

/-! ## 4. `Server.Dequeue`: batch and TTL capping -/

/-- what the store's dequeue answers -/
theorem step_dequeue_items {c : Cfg} {now : Int} {q q' : Q} {route target : String} {b t : Int} {ch : Choice}
    {resp : Resp} (h : Hk.step c now q (.dequeue route target b t) ch = some (q', resp)) :
    resp = .items ch.picks ∧ ch.picks.length ≤ effBatch b := by
  simp only [step] at h
  generalize (Hk.prune c now q ch.gone).map (sweep c now) = o at h
  cases o with
  | none => cases h
  | some q1 =>
    simp only at h
    split at h
    · rename_i hlegal
      simp only [Option.some.injEq, Prod.mk.injEq] at h
      refine ⟨h.2.symm, ?_⟩
      simp only [legalPicks, Bool.and_eq_true, beq_iff_eq] at hlegal
      rw [hlegal.1.1.1]
      exact Nat.min_le_left _ _
    · cases h

/-- **4 (`dequeue_batch_capped`).** A legal dequeue step hands the store: route, `pc.target`, the batch
    `b` = (`batch ≤ 0 ↦ 1`) capped by `maxBatch` when that is > 0, and the lease TTL `t` = the explicit
    one (else the default) capped by `maxTTL` when that is > 0.  It answers 200 with the store's picks,
    at most `max batch 1`, at most `maxBatch` (when > 0) and at most 100 (the store's own cap) of them,
    and does not touch the cache. -/
theorem dequeue_batch_capped {qc : Cfg} {pc : PCfg} {now : Int} {ps ps' : PState} {route : String}
    {batch : Int} {ttl : Option Int} {ch : Choice} {r : PResp}
    (h : pstep qc pc now ps (.dequeue route batch ttl) ch = some (ps', r)) :
    let b0 : Int := if batch ≤ 0 then 1 else batch
    let b : Int := if pc.maxBatch > 0 ∧ b0 > pc.maxBatch then pc.maxBatch else b0
    let t0 : Int := ttl.getD pc.defaultTTL
    let t : Int := if pc.maxTTL > 0 ∧ t0 > pc.maxTTL then pc.maxTTL else t0
    Hk.step qc now ps.q (.dequeue route pc.target b t) ch = some (ps'.q, .items r.picks) ∧
    ps'.cache = ps.cache ∧ r.status = 200 ∧ r.storeCalls = 1 ∧
    (r.picks.length : Int) ≤ max batch 1 ∧ (pc.maxBatch > 0 → r.picks.length ≤ pc.maxBatch) ∧
    r.picks.length ≤ 100 := by
  intro b0 b t0 t
  have hb : dqBatch pc batch = b := by
    simp only [dqBatch, b, b0, Bool.and_eq_true, decide_eq_true_eq]
  have ht : dqTTL pc ttl = t := by
    simp only [dqTTL, t, t0, Bool.and_eq_true, decide_eq_true_eq]
    cases ttl <;> rfl
  simp only [pstep, hb, ht] at h
  cases hs : Hk.step qc now ps.q (.dequeue route pc.target b t) ch with
  | none => simp only [hs] at h; cases h
  | some x =>
    obtain ⟨q', resp⟩ := x
    obtain ⟨hresp, hlen⟩ := step_dequeue_items hs
    subst hresp
    simp only [hs, Option.some.injEq, Prod.mk.injEq] at h
    obtain ⟨rfl, rfl⟩ := h
    refine ⟨rfl, rfl, rfl, rfl, ?_, ?_, ?_⟩
    · show (ch.picks.length : Int) ≤ max batch 1
      simp only [effBatch] at hlen
      simp only [b, b0] at hlen
      split at hlen <;> split at hlen <;> (try split at hlen) <;> (try split at hlen) <;> omega
    · intro hpos
      show ch.picks.length ≤ pc.maxBatch
      simp only [effBatch] at hlen
      simp only [b, b0] at hlen
      split at hlen <;> split at hlen <;> (try split at hlen) <;> (try split at hlen) <;> omega
    · show ch.picks.length ≤ 100
      simp only [effBatch] at hlen
      split at hlen <;> (try split at hlen) <;> omega

/-! ## 5. non-vacuity -/

namespace Demo

def leased (id l : String) (until_ : Int) : Msg :=
  { id := id, route := "/r", target := "pull", st := .leased, recv := 1, next := until_, attempt := 1,
    payload := "", headers := "", trace := "", reason := "", lease := l, luntil := until_ }

def queued (id : String) : Msg :=
  { id := id, route := "/r", target := "pull", st := .queued, recv := 1, next := 1, attempt := 0,
    payload := "", headers := "", trace := "", reason := "", lease := "", luntil := 0 }

/-- one message leased under "good" until t = 1000 -/
def s0 : PState := { q := { msgs := [leased "m1" "good" 1000], issued := ["good"] } }

/-- the responses of a run (`none` = illegal step) -/
def resps (qc : Cfg) (pc : PCfg) (ps : PState) (evs : List Ev) : Option (List PResp) :=
  (run qc pc ps evs).map (fun x => x.1.map (fun y => y.2.2))

/-- THE scenario: batch ack [good, unknown] ↦ succeeded 1, conflicts [unknown];
    retrying `unknown` alone ↦ 409 with a store call (NOT a cached 204);
    retrying `good` alone ↦ 204 served from the cache (storeCalls = 0). -/
example :
    resps {} {} s0 [⟨10, .ackBatch ["good", "unknown"], {}⟩, ⟨11, .ackSingle "unknown", {}⟩, ⟨12, .ackSingle " good ", {}⟩] =
    some [ { status := 200, succeeded := 1, conflicts := [⟨"unknown", false⟩], storeCalls := 1 },
           { status := 409, storeCalls := 1 },
           { status := 204, storeCalls := 0 } ] := by decide

/-- the retried batch is answered entirely from the cache for `good` and asks the store only about `unknown` -/
example :
    resps {} {} s0 [⟨10, .ackBatch ["good", "unknown"], {}⟩, ⟨11, .ackBatch ["good", "unknown"], {}⟩, ⟨12, .ackBatch ["good"], {}⟩] =
    some [ { status := 200, succeeded := 1, conflicts := [⟨"unknown", false⟩], storeCalls := 1 },
           { status := 200, succeeded := 1, conflicts := [⟨"unknown", false⟩], storeCalls := 1 },
           { status := 200, succeeded := 1, storeCalls := 0 } ] := by decide

/-- the cache entry lives `recentTTL`: one tick before the expiry it answers, at the expiry it does not -/
example :
    resps {} { recentTTL := 100 } s0 [⟨10, .ackSingle "good", {}⟩, ⟨109, .ackSingle "good", {}⟩, ⟨110, .ackSingle "good", {}⟩] =
    some [ { status := 204, storeCalls := 1 }, { status := 204, storeCalls := 0 }, { status := 409, storeCalls := 1 } ] := by decide

/-- ack and nack have separate keys; extend is never cached; a disabled cache (cap 0) never answers -/
example :
    resps {} {} s0 [⟨10, .ackSingle "good", {}⟩, ⟨11, .nackSingle "good" false "" 0, {}⟩, ⟨12, .extend "good" 5, {}⟩] =
    some [ { status := 204, storeCalls := 1 }, { status := 409, storeCalls := 1 }, { status := 409, storeCalls := 1 } ] := by decide
example :
    resps {} { recentCap := 0 } s0 [⟨10, .ackSingle "good", {}⟩, ⟨11, .ackSingle "good", {}⟩] =
    some [ { status := 204, storeCalls := 1 }, { status := 409, storeCalls := 1 } ] := by decide

/-- the cap evicts from the front (oldest first) -/
example :
    (run {} { recentCap := 1 } { q := { msgs := [leased "m1" "a" 1000, leased "m2" "b" 1000] } }
      [⟨10, .nackBatch ["a", "b"] true "why" 0, {}⟩]).map (fun x => (x.2.cache, x.2.q.msgs.map (·.st))) =
    some ([("b", "nack", 120000000010)], [.dead, .dead]) := by decide

/-- an expired lease: 409, and the message is released (theorem 3 is not vacuous) -/
example :
    (run {} {} s0 [⟨1000, .ackSingle "good", {}⟩]).map (fun x => (x.1.map (fun y => y.2.2.status), x.2.q.msgs)) =
    some ([409], [release 1000 (leased "m1" "good" 1000)]) := by decide

/-- blank id: 400, no store call -/
example : resps {} {} s0 [⟨10, .ackSingle "  ", {}⟩, ⟨10, .extend "" 5, {}⟩] =
    some [ { status := 400 }, { status := 400 } ] := by decide

/-- dequeue: batch 5 capped to `maxBatch = 2`, TTL 90 capped to `maxTTL = 50` -/
example :
    (run {} { maxBatch := 2, maxTTL := 50 } { q := { msgs := [queued "m1", queued "m2", queued "m3"] } }
      [⟨10, .dequeue "/r" 5 (some 90), { picks := [("m1", "L1"), ("m2", "L2")] }⟩]).map
        (fun x => (x.1.map (fun y => (y.2.2.status, y.2.2.picks)), x.2.q.msgs.map (fun m => (m.lease, m.luntil)))) =
    some ([(200, [("m1", "L1"), ("m2", "L2")])], [("L1", 60), ("L2", 60), ("", 0)]) := by decide
/-- … and leasing all three would be an illegal choice under that cap -/
example :
    (run {} { maxBatch := 2 } { q := { msgs := [queued "m1", queued "m2", queued "m3"] } }
      [⟨10, .dequeue "/r" 5 none, { picks := [("m1", "L1"), ("m2", "L2"), ("m3", "L3")] }⟩]).isNone = true := by decide

/-- **KNOWN DEVIATION (`untrimmed_batch_poisons_cache`).**  `Server.AckBatch` handed an id WITH surrounding
    white space (it does not normalise; only the HTTP handler's `normalizeLeaseIDs` does): the store
    reports the conflict under the TRIMMED id, `successfulLeaseIDs` compares the RAW id against it, finds
    no match and remembers the (trimmed) id as completed.  A later single ack of that id — which never
    was a lease at all, on an EMPTY queue — is answered 204 from the cache.  So the hypothesis
    `TrimmedIds` of `idempotent_answer_only_after_success` cannot be dropped. -/
theorem untrimmed_batch_poisons_cache :
    resps {} {} { q := {} } [⟨10, .ackBatch [" ghost "], {}⟩, ⟨11, .ackSingle "ghost", {}⟩] =
    some [ { status := 200, succeeded := 0, conflicts := [⟨"ghost", false⟩], storeCalls := 1 },
           { status := 204, storeCalls := 0 } ] := by decide

/-- the same two requests with the id normalised first behave correctly -/
example :
    resps {} {} { q := {} } [⟨10, .ackBatch (normIds [" ghost "]), {}⟩, ⟨11, .ackSingle "ghost", {}⟩] =
    some [ { status := 200, succeeded := 0, conflicts := [⟨"ghost", false⟩], storeCalls := 1 },
           { status := 409, storeCalls := 1 } ] := by decide

end Demo

/-! ## 6. how long a lease runs: `Dequeue` and `Extend` -/

/-! ### 6a. dequeue -/

/-- with pairwise distinct pick ids, the lease `grant` uses for a pick's message is that pick's lease -/
theorem leaseFor_of_mem {p : String × String} :
    ∀ (picks : List (String × String)), nodupStr (picks.map (·.1)) = true → p ∈ picks →
      leaseFor picks p.1 = some p.2
  | [], _, h => by cases h
  | x :: xs, hnd, h => by
    simp only [List.map_cons, nodupStr, Bool.and_eq_true, Bool.not_eq_true'] at hnd
    rcases List.mem_cons.1 h with rfl | h
    · simp [leaseFor]
    · have hne : (x.1 == p.1) = false := by
        cases hb : (x.1 == p.1) with
        | false => rfl
        | true =>
          have hx : x.1 = p.1 := by simpa using hb
          have : (xs.map (·.1)).contains x.1 = true := by
            rw [List.contains_iff_mem, hx]
            exact List.mem_map.2 ⟨p, h, rfl⟩
          rw [hnd.1] at this
          cases this
      have := leaseFor_of_mem xs hnd.2 h
      simpa [leaseFor, List.find?_cons, hne] using this

/-- the store's dequeue: every pick names, afterwards, a message leased under the pick's lease id
    until `now + effTTL t`.  No hypothesis on the state. -/
theorem step_dequeue_lease_end {c : Cfg} {now : Int} {q q' : Q} {route target : String} {b t : Int}
    {ch : Choice} {resp : Resp} (h : Hk.step c now q (.dequeue route target b t) ch = some (q', resp)) :
    ∀ p ∈ ch.picks, ∃ m' ∈ q'.msgs, m'.id = p.1 ∧ m'.st = .leased ∧ m'.lease = p.2 ∧
      m'.luntil = now + effTTL t := by
  simp only [step] at h
  generalize (Hk.prune c now q ch.gone).map (sweep c now) = o at h
  cases o with
  | none => cases h
  | some q1 =>
    simp only at h
    split at h
    · rename_i hlegal
      simp only [Option.some.injEq, Prod.mk.injEq] at h
      obtain ⟨rfl, -⟩ := h
      intro p hp
      simp only [legalPicks, Bool.and_eq_true, List.all_eq_true] at hlegal
      obtain ⟨⟨⟨_, hnd⟩, _⟩, hall⟩ := hlegal
      have hp' := hall p hp
      simp only [List.any_eq_true, List.mem_filter, beq_iff_eq] at hp'
      obtain ⟨m, ⟨hm, hrdy⟩, hid⟩ := hp'.1.1.1
      have hq : m.st = .queued := by
        simp only [ready, Bool.and_eq_true, beq_iff_eq] at hrdy
        exact hrdy.1.1.1
      have hlf : leaseFor ch.picks m.id = some p.2 := by rw [hid]; exact leaseFor_of_mem _ hnd hp
      refine ⟨grant now (effTTL t) ch.picks m, List.mem_map.2 ⟨m, hm, rfl⟩, ?_⟩
      have hg : grant now (effTTL t) ch.picks m =
          { m with st := .leased, attempt := m.attempt + 1, lease := p.2,
                   luntil := now + effTTL t, next := now + effTTL t } := by
        simp only [grant, hlf, hq, beq_self_eq_true, if_true]
      rw [hg]
      exact ⟨hid, rfl, rfl, rfl⟩
    · cases h

/-- every pick of the response names, in the state after the step, a message leased under the pick's
    lease id whose lease ends at `end_` -/
def PicksLeasedUntil (ps' : PState) (r : PResp) (end_ : Int) : Prop :=
  ∀ id lease, (id, lease) ∈ r.picks →
    ∃ m' ∈ ps'.q.msgs, m'.id = id ∧ m'.st = .leased ∧ m'.lease = lease ∧ m'.luntil = end_

/-- a legal dequeue step answers with the store's picks and the store's state -/
theorem pstep_dequeue_store {qc : Cfg} {pc : PCfg} {now : Int} {ps ps' : PState} {route : String}
    {batch : Int} {ttl : Option Int} {ch : Choice} {r : PResp}
    (h : pstep qc pc now ps (.dequeue route batch ttl) ch = some (ps', r)) :
    Hk.step qc now ps.q (.dequeue route pc.target (dqBatch pc batch) (dqTTL pc ttl)) ch =
      some (ps'.q, .items r.picks) ∧ r.picks = ch.picks ∧ r.status = 200 := by
  simp only [pstep] at h
  cases hs : Hk.step qc now ps.q (.dequeue route pc.target (dqBatch pc batch) (dqTTL pc ttl)) ch with
  | none => simp only [hs] at h; cases h
  | some x =>
    obtain ⟨q', resp⟩ := x
    obtain ⟨hresp, -⟩ := step_dequeue_items hs
    subst hresp
    simp only [hs, Option.some.injEq, Prod.mk.injEq] at h
    obtain ⟨rfl, rfl⟩ := h
    exact ⟨rfl, rfl, rfl⟩

/-- **6.1 (`dequeue_lease_runs_for_accepted_ttl`).** Every pick `(id, lease)` a dequeue step answers with
    names, in the state after the step, a message with that id, leased under that lease id, whose lease
    ends EXACTLY at `now + effTTL (dqTTL pc ttl)`: the requested TTL (else `pc.defaultTTL`), capped by
    `pc.maxTTL` when that is > 0, and replaced by the store's 30 s when the result is not positive.
    For ALL inputs; NO hypothesis on the state (no `Hk.Inv`), on the choice, or on the status: a legal
    dequeue step of the model always answers 200 (`pstep_dequeue_store`), and `r.picks = []` otherwise.
    `PicksLeasedUntil ps' r e` below is this very proposition with `e` for the lease end. -/
theorem dequeue_lease_runs_for_accepted_ttl {qc : Cfg} {pc : PCfg} {now : Int} {ps ps' : PState}
    {route : String} {batch : Int} {ttl : Option Int} {ch : Choice} {r : PResp}
    (h : pstep qc pc now ps (.dequeue route batch ttl) ch = some (ps', r)) :
    ∀ id lease, (id, lease) ∈ r.picks →
      ∃ m' ∈ ps'.q.msgs, m'.id = id ∧ m'.st = .leased ∧ m'.lease = lease ∧
        m'.luntil = now + effTTL (dqTTL pc ttl) := by
  obtain ⟨hs, hp, -⟩ := pstep_dequeue_store h
  intro id lease hmem
  rw [hp] at hmem
  exact step_dequeue_lease_end hs (id, lease) hmem

/-- the store's own default lease length (30 s), used for a non-positive TTL -/
def storeDefaultTTL : Int := 30000000000

theorem effTTL_of_pos {t : Int} (h : 0 < t) : effTTL t = t := by
  simp only [effTTL]; split <;> omega

theorem effTTL_of_nonpos {t : Int} (h : t ≤ 0) : effTTL t = storeDefaultTTL := by
  simp only [effTTL, storeDefaultTTL]; split <;> omega

theorem dqTTL_none (pc : PCfg) :
    dqTTL pc none = if pc.maxTTL > 0 ∧ pc.defaultTTL > pc.maxTTL then pc.maxTTL else pc.defaultTTL := by
  simp only [dqTTL, Bool.and_eq_true, decide_eq_true_eq]

theorem dqTTL_within {pc : PCfg} {t : Int} (h : pc.maxTTL ≤ 0 ∨ t ≤ pc.maxTTL) : dqTTL pc (some t) = t := by
  simp only [dqTTL, Bool.and_eq_true, decide_eq_true_eq]
  split <;> omega

theorem dqTTL_capped {pc : PCfg} {t : Int} (h0 : 0 < pc.maxTTL) (h : pc.maxTTL < t) :
    dqTTL pc (some t) = pc.maxTTL := by
  simp only [dqTTL, Bool.and_eq_true, decide_eq_true_eq]
  split <;> omega

/-- **6.1a.** no TTL requested: the lease runs for the configured default, capped by `maxTTL` when that
    is > 0 (and for the store's 30 s when the result is not positive) -/
theorem dequeue_default_ttl {qc : Cfg} {pc : PCfg} {now : Int} {ps ps' : PState}
    {route : String} {batch : Int} {ch : Choice} {r : PResp}
    (h : pstep qc pc now ps (.dequeue route batch none) ch = some (ps', r)) :
    PicksLeasedUntil ps' r
      (now + effTTL (if pc.maxTTL > 0 ∧ pc.defaultTTL > pc.maxTTL then pc.maxTTL else pc.defaultTTL)) := by
  have this : PicksLeasedUntil ps' r _ := dequeue_lease_runs_for_accepted_ttl h
  rwa [dqTTL_none] at this

/-- **6.1b.** a positive requested TTL within the cap (or no cap configured) is the lease length -/
theorem dequeue_requested_ttl {qc : Cfg} {pc : PCfg} {now : Int} {ps ps' : PState}
    {route : String} {batch : Int} {t : Int} {ch : Choice} {r : PResp}
    (h : pstep qc pc now ps (.dequeue route batch (some t)) ch = some (ps', r))
    (hpos : 0 < t) (hcap : pc.maxTTL ≤ 0 ∨ t ≤ pc.maxTTL) :
    PicksLeasedUntil ps' r (now + t) := by
  have this : PicksLeasedUntil ps' r _ := dequeue_lease_runs_for_accepted_ttl h
  rwa [dqTTL_within hcap, effTTL_of_pos hpos] at this

/-- **6.1c.** a requested TTL above the cap: the lease runs for `maxTTL` -/
theorem dequeue_capped_ttl {qc : Cfg} {pc : PCfg} {now : Int} {ps ps' : PState}
    {route : String} {batch : Int} {t : Int} {ch : Choice} {r : PResp}
    (h : pstep qc pc now ps (.dequeue route batch (some t)) ch = some (ps', r))
    (h0 : 0 < pc.maxTTL) (hcap : pc.maxTTL < t) :
    PicksLeasedUntil ps' r (now + pc.maxTTL) := by
  have this : PicksLeasedUntil ps' r _ := dequeue_lease_runs_for_accepted_ttl h
  rwa [dqTTL_capped h0 hcap, effTTL_of_pos h0] at this

/-- **6.1d (the corner).** a NON-POSITIVE requested TTL is handed to the store as it is, and the store
    then uses ITS default of 30 s — neither `pc.defaultTTL` nor `pc.maxTTL` plays a role. -/
theorem dequeue_nonpositive_ttl {qc : Cfg} {pc : PCfg} {now : Int} {ps ps' : PState}
    {route : String} {batch : Int} {t : Int} {ch : Choice} {r : PResp}
    (h : pstep qc pc now ps (.dequeue route batch (some t)) ch = some (ps', r)) (hnp : t ≤ 0) :
    PicksLeasedUntil ps' r (now + storeDefaultTTL) := by
  have this : PicksLeasedUntil ps' r _ := dequeue_lease_runs_for_accepted_ttl h
  have hd : dqTTL pc (some t) = t := by
    simp only [dqTTL, Bool.and_eq_true, decide_eq_true_eq]
    split <;> omega
  rwa [hd, effTTL_of_nonpos hnp] at this

/-! ### 6b. extend -/

/-- a successful single lease mutation rewrites exactly the holders of the lease id -/
theorem leaseOne_ok_msgs {c : Cfg} {now : Int} {k : LeaseKind} {l : String} {ms : List Msg}
    (h : (leaseOne c now k l ms).2 = none) :
    (leaseOne c now k l ms).1 = ms.filterMap (fun x => if holds l x then applyLease c now k x else some x) := by
  unfold leaseOne at h ⊢
  by_cases hl : (l == "") = true
  · simp only [hl, if_true] at h; cases h
  · simp only [hl, Bool.false_eq_true, if_false] at h ⊢
    cases hf : ms.find? (holds l) with
    | none => simp only [hf] at h; cases h
    | some m =>
      simp only [hf] at h ⊢
      by_cases hlt : m.luntil ≤ now
      · simp only [hlt, if_true] at h; cases h
      · simp only [hlt, if_false]

/-- what `Extend` does to a message -/
def extended (m : Msg) (d : Int) : Msg := { m with luntil := m.luntil + d, next := m.luntil + d }

/-- a 204 of an extend by a positive amount: the store found a holder and rewrote every holder -/
theorem extend_ok_store {qc : Cfg} {pc : PCfg} {now : Int} {ps ps' : PState} {l : String} {by_ : Int}
    {ch : Choice} {r : PResp}
    (h : pstep qc pc now ps (.extend l by_) ch = some (ps', r)) (h204 : r.status = 204) (hby : 0 < by_) :
    (leaseOne qc now (.extend by_) (trimWS l) ps.q.msgs).2 = none ∧
    ps'.q.msgs = ps.q.msgs.map (fun x => if holds (trimWS l) x then extended x by_ else x) := by
  simp only [pstep] at h
  rcases singleOp_cases h with ⟨_, _, rfl⟩ | ⟨_, hhit, _, _⟩ | ⟨_, _, q', resp, hs, rfl, rfl⟩
  · cases h204
  · rw [lookup_none] at hhit; cases hhit
  · rw [step_lease_eq qc now ps.q (.extend by_) (trimWS l) ch (by intro d hd; cases hd; exact hby)
      (trimWS_idem l)] at hs
    simp only [Option.some.injEq, Prod.mk.injEq] at hs
    obtain ⟨rfl, rfl⟩ := hs
    cases ho : (leaseOne qc now (.extend by_) (trimWS l) ps.q.msgs).2 with
    | some e =>
      rw [ho] at h204
      cases e <;> cases h204
    | none =>
      refine ⟨rfl, ?_⟩
      show (leaseOne qc now (.extend by_) (trimWS l) ps.q.msgs).1 = _
      have hf : (fun x => if holds (trimWS l) x then applyLease qc now (.extend by_) x else some x) =
          fun x => some (if holds (trimWS l) x then extended x by_ else x) := by
        funext x; split <;> rfl
      rw [leaseOne_ok_msgs ho, hf, List.filterMap_eq_map']

/-- a 204 of an extend by a positive amount means that some message held the (trimmed) lease id
    UNEXPIRED when the step began — the hypotheses of the next theorem are satisfiable exactly then -/
theorem extend_ok_live_holder {qc : Cfg} {pc : PCfg} {now : Int} {ps ps' : PState} {l : String} {by_ : Int}
    {ch : Choice} {r : PResp}
    (h : pstep qc pc now ps (.extend l by_) ch = some (ps', r)) (h204 : r.status = 204) (hby : 0 < by_) :
    ∃ m ∈ ps.q.msgs, m.st = .leased ∧ m.lease = trimWS l ∧ now < m.luntil :=
  leaseOne_ok (extend_ok_store h h204 hby).1

/-- the extended message itself is in the state afterwards: nothing but `luntil` and `next` moved -/
theorem extend_exact {qc : Cfg} {pc : PCfg} {now : Int} {ps ps' : PState} {l : String} {by_ : Int}
    {ch : Choice} {r : PResp}
    (h : pstep qc pc now ps (.extend l by_) ch = some (ps', r)) (h204 : r.status = 204) (hby : 0 < by_)
    {m : Msg} (hm : m ∈ ps.q.msgs) (hst : m.st = .leased) (hl : m.lease = trimWS l) :
    extended m by_ ∈ ps'.q.msgs := by
  rw [(extend_ok_store h h204 hby).2]
  refine List.mem_map.2 ⟨m, hm, ?_⟩
  simp only [holds_iff.2 ⟨hst, hl⟩, if_true]

/-- **6.2 (`extend_moves_lease_end_by_accepted`).** An extend by `by_ > 0` answered 204: a message that
    was leased under the (trimmed) lease id is, afterwards, still leased under the same lease id and its
    lease end (and its next-visibility time) is EXACTLY `m.luntil + by_`; by `extend_exact` nothing else
    about it changed, by `extend_others_untouched` nobody else changed.
    The pull layer trims the id before the store sees it, so the lease id is `trimWS l` on BOTH backends
    (memory looks the trimmed id up verbatim, SQLite trims once more: `trimWS_idem`).
    NO hypothesis on the state (no `Hk.Inv`) and no liveness hypothesis `now < m.luntil` is needed: the
    204 itself says that the first holder of the id was unexpired (`extend_ok_live_holder`) — an expired,
    not yet swept lease gets 409 and is released (`stale_single_conflict`). -/
theorem extend_moves_lease_end_by_accepted {qc : Cfg} {pc : PCfg} {now : Int} {ps ps' : PState}
    {l : String} {by_ : Int} {ch : Choice} {r : PResp}
    (h : pstep qc pc now ps (.extend l by_) ch = some (ps', r)) (h204 : r.status = 204) (hby : 0 < by_)
    {m : Msg} (hm : m ∈ ps.q.msgs) (hst : m.st = .leased) (hl : m.lease = trimWS l) :
    ∃ m' ∈ ps'.q.msgs, m'.id = m.id ∧ m'.st = .leased ∧ m'.lease = trimWS l ∧
      m'.luntil = m.luntil + by_ ∧ m'.next = m'.luntil :=
  ⟨extended m by_, extend_exact h h204 hby hm hst hl, rfl, hst, hl, rfl, rfl⟩

/-- the other messages: whoever does not hold the lease id is untouched -/
theorem extend_others_untouched {qc : Cfg} {pc : PCfg} {now : Int} {ps ps' : PState}
    {l : String} {by_ : Int} {ch : Choice} {r : PResp}
    (h : pstep qc pc now ps (.extend l by_) ch = some (ps', r)) (h204 : r.status = 204) (hby : 0 < by_)
    {m : Msg} (hm : m ∈ ps.q.msgs) (hno : ¬ (m.st = .leased ∧ m.lease = trimWS l)) : m ∈ ps'.q.msgs := by
  rw [(extend_ok_store h h204 hby).2]
  refine List.mem_map.2 ⟨m, hm, ?_⟩
  have : holds (trimWS l) m = false := by
    cases hh : holds (trimWS l) m with
    | false => rfl
    | true => exact absurd (holds_iff.1 hh) hno
  simp only [this, Bool.false_eq_true, if_false]

/-- **6.2' (the corner `by_ ≤ 0`).** an extend by a non-positive amount on a non-blank id is answered
    204 by the store WITHOUT looking at the lease at all: nothing changes (so the lease end does NOT
    move by `by_`, and the 204 does not even mean that the lease exists). -/
theorem extend_nonpositive_noop {qc : Cfg} {pc : PCfg} {now : Int} {ps : PState} {l : String} {by_ : Int}
    {ch : Choice} (hby : by_ ≤ 0) (hl : trimWS l ≠ "") :
    pstep qc pc now ps (.extend l by_) ch = some (ps, { status := 204, storeCalls := 1 }) := by
  have hl' : (trimWS l == "") = false := by simpa using hl
  simp only [pstep, singleOp, hl', lookup_none, Bool.false_eq_true, if_false, step, hby, if_true]
  rfl

/-! ### 6c. "the" message: with pairwise distinct message ids (clause `nodup` of the reachable-state
    invariant `Hk.Inv`, `HkModel/Proofs/QueueInv.lean`) the statements hold of EVERY message with that id -/

theorem msg_eq_of_id_eq {ms : List Msg} (h : (ms.map (·.id)).Nodup) {a b : Msg}
    (ha : a ∈ ms) (hb : b ∈ ms) (hid : a.id = b.id) : a = b := by
  induction ms with
  | nil => cases ha
  | cons x xs ih =>
    simp only [List.map_cons, List.nodup_cons, List.mem_map, not_exists, not_and] at h
    rcases List.mem_cons.1 ha with rfl | ha' <;> rcases List.mem_cons.1 hb with rfl | hb'
    · rfl
    · exact absurd hid.symm (h.1 b hb')
    · exact absurd hid (h.1 a ha')
    · exact ih h.2 ha' hb'

theorem prune_sublist {c : Cfg} {now : Int} {q q1 : Q} {gone : List String}
    (h : Hk.prune c now q gone = some q1) : q1.msgs.Sublist q.msgs := by
  unfold Hk.prune at h
  split at h
  · dsimp only at h
    split at h
    · split at h
      · simp only [Option.some.injEq] at h
        subst h
        exact (List.filter_sublist (l := _)).trans List.filter_sublist
      · cases h
    · simp only [Option.some.injEq] at h
      subst h
      exact List.filter_sublist
  · simp only [Option.some.injEq] at h
    subst h
    exact List.Sublist.refl _

theorem sweep_ids (c : Cfg) (now : Int) (q : Q) : (sweep c now q).msgs.map (·.id) = q.msgs.map (·.id) := by
  unfold sweep
  split
  · simp only [sweepMsgs, List.map_map]
    apply List.map_congr_left
    intro m _
    simp only [Function.comp]
    split <;> rfl
  · rfl

theorem grant_id (now ttl : Int) (picks : List (String × String)) (m : Msg) :
    (grant now ttl picks m).id = m.id := by
  unfold grant
  split
  · split <;> rfl
  · rfl

/-- a dequeue creates no message id -/
theorem step_dequeue_ids {c : Cfg} {now : Int} {q q' : Q} {route target : String} {b t : Int}
    {ch : Choice} {resp : Resp} (h : Hk.step c now q (.dequeue route target b t) ch = some (q', resp)) :
    (q'.msgs.map (·.id)).Sublist (q.msgs.map (·.id)) := by
  simp only [step] at h
  cases hp : Hk.prune c now q ch.gone with
  | none => simp only [hp, Option.map_none] at h; cases h
  | some q0 =>
    simp only [hp, Option.map_some] at h
    split at h
    · simp only [Option.some.injEq, Prod.mk.injEq] at h
      obtain ⟨rfl, -⟩ := h
      have hg : ((sweep c now q0).msgs.map (grant now (effTTL t) ch.picks)).map (·.id) =
          (sweep c now q0).msgs.map (·.id) := by
        rw [List.map_map]
        apply List.map_congr_left
        intro m _
        exact grant_id _ _ _ _
      show (((sweep c now q0).msgs.map (grant now (effTTL t) ch.picks)).map (·.id)).Sublist _
      rw [hg, sweep_ids]
      exact (prune_sublist hp).map _
    · cases h

/-- **6.1 for "the" message.** when the message ids of the state before are pairwise distinct, EVERY message
    with a pick's id is, afterwards, leased under the pick's lease id until `now + effTTL (dqTTL pc ttl)` -/
theorem dequeue_lease_runs_for_accepted_ttl_unique {qc : Cfg} {pc : PCfg} {now : Int} {ps ps' : PState}
    {route : String} {batch : Int} {ttl : Option Int} {ch : Choice} {r : PResp}
    (hnd : (ps.q.msgs.map (·.id)).Nodup)
    (h : pstep qc pc now ps (.dequeue route batch ttl) ch = some (ps', r)) :
    ∀ id lease, (id, lease) ∈ r.picks → ∀ m' ∈ ps'.q.msgs, m'.id = id →
      m'.st = .leased ∧ m'.lease = lease ∧ m'.luntil = now + effTTL (dqTTL pc ttl) := by
  intro id lease hmem m' hm' hid
  obtain ⟨m0, hm0, hid0, hst, hl, hu⟩ := dequeue_lease_runs_for_accepted_ttl h id lease hmem
  have hnd' : (ps'.q.msgs.map (·.id)).Nodup := (step_dequeue_ids (pstep_dequeue_store h).1).nodup hnd
  have : m' = m0 := msg_eq_of_id_eq hnd' hm' hm0 (hid.trans hid0.symm)
  subst this
  exact ⟨hst, hl, hu⟩

/-- **6.2 for "the" message.** when the message ids of the state before are pairwise distinct, EVERY message
    with `m`'s id is, afterwards, `m` with `luntil` and `next` moved to `m.luntil + by_` -/
theorem extend_moves_lease_end_by_accepted_unique {qc : Cfg} {pc : PCfg} {now : Int} {ps ps' : PState}
    {l : String} {by_ : Int} {ch : Choice} {r : PResp} (hnd : (ps.q.msgs.map (·.id)).Nodup)
    (h : pstep qc pc now ps (.extend l by_) ch = some (ps', r)) (h204 : r.status = 204) (hby : 0 < by_)
    {m : Msg} (hm : m ∈ ps.q.msgs) (hst : m.st = .leased) (hl : m.lease = trimWS l) :
    ∀ m' ∈ ps'.q.msgs, m'.id = m.id → m' = extended m by_ := by
  intro m' hm' hid
  have hmsgs := (extend_ok_store h h204 hby).2
  have hnd' : (ps'.q.msgs.map (·.id)).Nodup := by
    rw [hmsgs, List.map_map]
    have : ps.q.msgs.map ((·.id) ∘ fun x => if holds (trimWS l) x then extended x by_ else x) =
        ps.q.msgs.map (·.id) := by
      apply List.map_congr_left
      intro x _
      simp only [Function.comp]
      split <;> rfl
    rw [this]
    exact hnd
  exact msg_eq_of_id_eq hnd' hm' (extend_exact h h204 hby hm hst hl) hid

namespace Demo

def sec : Int := 1000000000

/-- the configuration of the examples: default lease 45 s, cap 20 s -/
def pc20 : PCfg := { defaultTTL := 45 * sec, maxTTL := 20 * sec }

def q1 : PState := { q := { msgs := [queued "m1"] } }

/-- what the examples look at: per message its id, state, lease id and lease end -/
structure LeaseView where
  id : String
  st : St
  lease : String
  luntil : Int
  deriving DecidableEq, Repr

/-- status, picks and the lease view of the state after a step (`none` = illegal step) -/
def leaseEnds (x : Option (PState × PResp)) : Option (Nat × List (String × String) × List LeaseView) :=
  x.map (fun y => (y.2.status, y.2.picks, y.1.q.msgs.map (fun m => ⟨m.id, m.st, m.lease, m.luntil⟩)))

/-- **non-vacuity of 6.1.** 5 min requested under a 20 s cap: the step is legal, answers 200 with the
    pick, and the lease ends at `now + 20 s` -/
example :
    leaseEnds (pstep {} pc20 1000 q1 (.dequeue "/r" 1 (some (300 * sec))) { picks := [("m1", "L1")] }) =
    some (200, [("m1", "L1")], [⟨"m1", .leased, "L1", 1000 + 20 * sec⟩]) := by decide

/-- … and theorem 6.1c applies to that very step -/
example : ∃ ps' r,
    pstep {} pc20 1000 q1 (.dequeue "/r" 1 (some (300 * sec))) { picks := [("m1", "L1")] } = some (ps', r) ∧
    r.picks = [("m1", "L1")] ∧ PicksLeasedUntil ps' r (1000 + 20 * sec) := by
  cases hs : pstep {} pc20 1000 q1 (.dequeue "/r" 1 (some (300 * sec))) { picks := [("m1", "L1")] } with
  | none => exact absurd hs (by decide)
  | some x =>
    obtain ⟨ps', r⟩ := x
    refine ⟨ps', r, rfl, ?_, dequeue_capped_ttl hs (by decide) (by decide)⟩
    have : (some (ps', r) : Option (PState × PResp)).map (fun y => y.2.picks) = some [("m1", "L1")] := by
      rw [← hs]; decide
    simpa using this

/-- no TTL requested: the default 45 s is capped to 20 s as well; 7 s requested: 7 s -/
example :
    leaseEnds (pstep {} pc20 1000 q1 (.dequeue "/r" 1 none) { picks := [("m1", "L1")] }) =
    some (200, [("m1", "L1")], [⟨"m1", .leased, "L1", 1000 + 20 * sec⟩]) := by decide
example :
    leaseEnds (pstep {} pc20 1000 q1 (.dequeue "/r" 1 (some (7 * sec))) { picks := [("m1", "L1")] }) =
    some (200, [("m1", "L1")], [⟨"m1", .leased, "L1", 1000 + 7 * sec⟩]) := by decide

/-- **the corner of 6.1d.** a requested TTL of 0 (or below) under the same 20 s cap gives a lease of
    30 s — the store's default, LONGER than `maxTTL` -/
theorem nonpositive_ttl_escapes_cap :
    leaseEnds (pstep {} pc20 1000 q1 (.dequeue "/r" 1 (some 0)) { picks := [("m1", "L1")] }) =
    some (200, [("m1", "L1")], [⟨"m1", .leased, "L1", 1000 + 30 * sec⟩]) := by decide

/-- **non-vacuity of 6.2.** extend by 500: 204 and the lease end moves from 1000 to 1500
    (the id is trimmed by the pull layer) -/
example :
    leaseEnds (pstep {} {} 10 s0 (.extend " good " 500) {}) =
    some (204, [], [⟨"m1", .leased, "good", 1500⟩]) := by decide

/-- **the corner of 6.2'.** extend by −5: 204, and the lease end stays 1000 (not 995); the same 204
    for a lease id nobody ever held -/
theorem nonpositive_extend_is_silent_noop :
    leaseEnds (pstep {} {} 10 s0 (.extend "good" (-5)) {}) = some (204, [], [⟨"m1", .leased, "good", 1000⟩]) ∧
    leaseEnds (pstep {} {} 10 s0 (.extend "nobody" 0) {}) = some (204, [], [⟨"m1", .leased, "good", 1000⟩]) := by
  decide

/-- an expired but not yet swept lease cannot be extended: 409, and the message is released -/
example :
    leaseEnds (pstep {} {} 1000 s0 (.extend "good" 500) {}) = some (409, [], [⟨"m1", .queued, "", 0⟩]) := by decide

end Demo

end Hk.PullOps

#print axioms Hk.PullOps.cached_answer_inert
#print axioms Hk.PullOps.cache_sound
#print axioms Hk.PullOps.cached_answer_only_after_claim
#print axioms Hk.PullOps.claimed_genuine
#print axioms Hk.PullOps.genuine_held
#print axioms Hk.PullOps.idempotent_answer_only_after_success
#print axioms Hk.PullOps.batch_succeeded_split
#print axioms Hk.PullOps.ackSingle_cached_iff
#print axioms Hk.PullOps.nackSingle_cached_iff
#print axioms Hk.PullOps.run_reach
#print axioms Hk.PullOps.stale_single_conflict
#print axioms Hk.PullOps.releaseExpired_spec
#print axioms Hk.PullOps.dequeue_batch_capped
#print axioms Hk.PullOps.trimWS_idem
#print axioms Hk.PullOps.normIds_trimmed
#print axioms Hk.PullOps.Demo.untrimmed_batch_poisons_cache
#print axioms Hk.PullOps.dequeue_lease_runs_for_accepted_ttl
#print axioms Hk.PullOps.dequeue_default_ttl
#print axioms Hk.PullOps.dequeue_requested_ttl
#print axioms Hk.PullOps.dequeue_capped_ttl
#print axioms Hk.PullOps.dequeue_nonpositive_ttl
#print axioms Hk.PullOps.dequeue_lease_runs_for_accepted_ttl_unique
#print axioms Hk.PullOps.extend_ok_live_holder
#print axioms Hk.PullOps.extend_exact
#print axioms Hk.PullOps.extend_moves_lease_end_by_accepted
#print axioms Hk.PullOps.extend_others_untouched
#print axioms Hk.PullOps.extend_nonpositive_noop
#print axioms Hk.PullOps.extend_moves_lease_end_by_accepted_unique
#print axioms Hk.PullOps.Demo.nonpositive_ttl_escapes_cap
#print axioms Hk.PullOps.Demo.nonpositive_extend_is_silent_noop
