import HkModel.Model.Reload
import HkModel.Model.FileAtomic
import HkModel.Generated.ReloadSteps
/-! C18 — configuration changes apply atomically or not at all: property theorems. -/
namespace Hk.Reload

theorem runFrom_no_fail_after (rest : List Ev) (h : rest.all (fun x => !x.isFail) = true) :
    ∀ i failAt l v, (runFrom rest i failAt l v).2 = true := by
  induction rest with
  | nil => intros; rfl
  | cons e rest ih =>
    intro i failAt l v
    simp only [List.all_cons, Bool.and_eq_true, Bool.not_eq_true'] at h
    simp only [runFrom, h.1, Bool.false_eq_true, ite_false]
    exact ih h.2 _ _ _ _

/-- **A reload that gives up leaves every runtime field as it was** — for any event list whose give-up points all
    precede its writes, any give-up point, any live state. -/
theorem failed_reload_unchanged (evs : List Ev) (h : failsFirst evs = true) :
    ∀ i failAt l v, (runFrom evs i failAt l v).2 = false → (runFrom evs i failAt l v).1 = l := by
  induction evs with
  | nil => intro i failAt l v hf; simp [runFrom] at hf
  | cons e rest ih =>
    intro i failAt l v hf
    cases he : e.isFail with
    | true =>
      simp only [failsFirst, he, ite_true] at h
      simp only [runFrom, he, ite_true] at hf ⊢
      split
      · rfl
      · rename_i hne
        simp only [hne, ite_false] at hf
        exact ih h _ _ _ _ hf
    | false =>
      simp only [failsFirst, he, Bool.false_eq_true, ite_false] at h
      simp only [runFrom, he, Bool.false_eq_true, ite_false] at hf
      rw [runFrom_no_fail_after rest h] at hf
      cases hf

theorem setFields_fst (l : Live) (fs : List String) (v : Ver) : (setFields l fs v).map (·.1) = l.map (·.1) := by
  simp only [setFields, List.map_map]
  apply List.map_congr_left
  intro p _
  simp only [Function.comp]
  split <;> rfl

theorem setFields_holds (l : Live) (fs : List String) (v : Ver) (p : String × Ver) (hp : p ∈ setFields l fs v) :
    (p.1 ∈ fs ∧ p.2 = v) ∨ (p ∈ l ∧ p.1 ∉ fs) := by
  simp only [setFields, List.mem_map] at hp
  obtain ⟨q, hq, rfl⟩ := hp
  by_cases hc : fs.contains q.1 = true
  · left; rw [if_pos hc]; exact ⟨by simpa using hc, rfl⟩
  · right; rw [if_neg hc]; exact ⟨hq, by simpa using hc⟩

/-- after a run that reported success, a field is at the new version if some write of the run assigns it, and
    untouched otherwise -/
theorem run_success_fields (evs : List Ev) :
    ∀ i failAt l v, (runFrom evs i failAt l v).2 = true →
      ∀ p ∈ (runFrom evs i failAt l v).1, (p.1 ∈ (writes evs).flatten ∧ p.2 = v) ∨ (p ∈ l ∧ p.1 ∉ (writes evs).flatten) := by
  induction evs with
  | nil => intro i failAt l v _ p hp; right; exact ⟨by simpa [runFrom] using hp, by simp [writes]⟩
  | cons e rest ih =>
    intro i failAt l v hs p hp
    cases e with
    | mayFail w =>
      simp only [runFrom, Ev.isFail, ite_true] at hs hp
      by_cases hf : failAt = some i
      · simp [hf] at hs
      · simp only [hf, ite_false] at hs hp
        simpa [writes] using ih _ _ _ _ hs p hp
    | write fs =>
      simp only [runFrom, Ev.isFail, Bool.false_eq_true, ite_false, Ev.fields] at hs hp
      rcases ih _ _ _ _ hs p hp with h | ⟨h1, h2⟩
      · left; refine ⟨?_, h.2⟩
        have : writes (Ev.write fs :: rest) = fs :: writes rest := by simp [writes]
        rw [this]; simp only [List.flatten_cons, List.mem_append]; exact Or.inr h.1
      · have hw : writes (Ev.write fs :: rest) = fs :: writes rest := by simp [writes]
        rw [hw]; simp only [List.flatten_cons, List.mem_append]
        rcases setFields_holds l fs v p h1 with ⟨a, b⟩ | ⟨a, b⟩
        · left; exact ⟨Or.inl a, b⟩
        · right; exact ⟨a, fun hh => hh.elim b h2⟩
    | writeUnlocked fs =>
      simp only [runFrom, Ev.isFail, Bool.false_eq_true, ite_false, Ev.fields] at hs hp
      rcases ih _ _ _ _ hs p hp with h | ⟨h1, h2⟩
      · left; refine ⟨?_, h.2⟩
        have : writes (Ev.writeUnlocked fs :: rest) = fs :: writes rest := by simp [writes]
        rw [this]; simp only [List.flatten_cons, List.mem_append]; exact Or.inr h.1
      · have hw : writes (Ev.writeUnlocked fs :: rest) = fs :: writes rest := by simp [writes]
        rw [hw]; simp only [List.flatten_cons, List.mem_append]
        rcases setFields_holds l fs v p h1 with ⟨a, b⟩ | ⟨a, b⟩
        · left; exact ⟨Or.inl a, b⟩
        · right; exact ⟨a, fun hh => hh.elim b h2⟩
    | touchUnlocked fs =>
      simp only [runFrom, Ev.isFail, Bool.false_eq_true, ite_false, Ev.fields] at hs hp
      have hw : writes (Ev.touchUnlocked fs :: rest) = writes rest := by simp [writes]
      rw [hw]
      rcases ih _ _ _ _ hs p hp with h | ⟨h1, h2⟩
      · left; exact h
      · rcases setFields_holds l [] v p h1 with ⟨a, _⟩ | ⟨a, _⟩
        · cases a
        · right; exact ⟨a, h2⟩

/-- **A successful reload puts every configuration-carrying field at the new version.** -/
theorem ok_reload_all_new (evs : List Ev) (failAt : Option Nat) (l : Live) (v : Ver)
    (hcov : ∀ p ∈ l, p.1 ∈ (writes evs).flatten) (hs : (run evs failAt l v).2 = true) :
    uniform (run evs failAt l v).1 v = true := by
  simp only [uniform, List.all_eq_true, beq_iff_eq]
  intro p hp
  rcases run_success_fields evs 0 failAt l v hs p hp with h | ⟨h1, h2⟩
  · exact h.2
  · exact absurd (hcov p h1) h2

/-- **One write section ⇒ every observable live state is entirely old or entirely new.** -/
theorem single_swap_atomic (fs : List String) (l : Live) (v : Ver) (hcov : ∀ p ∈ l, p.1 ∈ fs) :
    ∀ s ∈ observable [fs] l v, s = l ∨ uniform s v = true := by
  intro s hs
  simp only [observable, List.mem_cons, List.mem_nil_iff, or_false] at hs
  rcases hs with rfl | rfl
  · left; rfl
  · right
    simp only [uniform, List.all_eq_true, beq_iff_eq]
    intro p hp
    rcases setFields_holds l fs v p hp with ⟨_, b⟩ | ⟨a, b⟩
    · exact b
    · exact absurd (hcov p a) b

theorem no_write_atomic (l : Live) (v : Ver) : ∀ s ∈ observable [] l v, s = l := by
  intro s hs; simpa [observable] using hs

/-- the two write sections of the pinned `reloadConfig` (before the repair): a state in between is a mixture -/
def pinnedTwoPhase : List (List String) :=
  [["pullAuthorize", "workerAuthorize", "adminAuthorize", "pullByRoute", "workerByRoute", "basicByRoute", "forwardByRoute", "hmacByRoute"],
   ["routes", "pathToRoute", "trendSignals", "adaptiveBackpressure", "ingressGlobalLimit", "ingressRouteLimits"]]

theorem pinned_two_phase_mixture :
    ∃ s ∈ observable pinnedTwoPhase (initLive pinnedTwoPhase.flatten 0) 1,
      s ≠ initLive pinnedTwoPhase.flatten 0 ∧ uniform s 1 = false ∧ get s "routes" = some 0 ∧ get s "basicByRoute" = some 1 := by
  refine ⟨setFields (initLive pinnedTwoPhase.flatten 0) pinnedTwoPhase.head! 1, ?_, ?_, ?_, ?_, ?_⟩ <;> decide

/-! ### requests -/

theorem get_uniform (l : Live) (v : Ver) (h : uniform l v = true) (f : String) (w : Ver) (hg : get l f = some w) : w = v := by
  simp only [get, Option.map_eq_some_iff] at hg
  obtain ⟨p, hp, rfl⟩ := hg
  simp only [uniform, List.all_eq_true, beq_iff_eq] at h
  exact h p (List.mem_of_find?_eq_some hp)

theorem allSame_of_forall (vs : List Ver) (v : Ver) (h : ∀ w ∈ vs, w = v) : allSame vs = true := by
  cases vs with
  | nil => rfl
  | cons a rest =>
    simp only [allSame, List.all_eq_true, beq_iff_eq]
    intro w hw
    rw [h w (List.mem_cons_of_mem _ hw), h a List.mem_cons_self]

/-- **A request all of whose accessor calls run against one uniform live state sees one version** (so with a
    single swap, a request that does not straddle the swap is served entirely by old or entirely by new). -/
theorem request_within_one_state (calls : List (List String)) (l : Live) (v : Ver) (cut : Nat) (h : uniform l v = true) :
    allSame (serve calls cut l l) = true := by
  apply allSame_of_forall _ v
  intro w hw
  simp only [serve, List.mem_flatten, List.mem_map] at hw
  obtain ⟨xs, ⟨p, _, rfl⟩, hw⟩ := hw
  simp only [ite_self, List.mem_filterMap] at hw
  obtain ⟨f, _, hf⟩ := hw
  exact get_uniform l v h f w hf

/-- **…but a request made of separately locked accessor calls can straddle even a single swap**: with two calls that
    read configuration fields, the cut between them yields a mixture.  This is the structure of the pinned
    `ingress.Server.ServeHTTP` (resolveIngress, then basicAuthFor, …) — recorded as a known finding. -/
theorem per_accessor_calls_can_mix (f g : String) (old new : Ver) (hne : old ≠ new) :
    allSame (serve [[f], [g]] 1 (initLive [f, g] old) (initLive [f, g] new)) = false := by
  have h1 : get [(f, old), (g, old)] f = some old := by simp [get]
  have h2 : get [(f, new), (g, new)] g = some new := by
    by_cases hfg : f = g
    · subst hfg; simp [get]
    · have : (f == g) = false := by simpa using hfg
      simp [get, List.find?, this]
  have hs : serve [[f], [g]] 1 (initLive [f, g] old) (initLive [f, g] new) = [old, new] := by
    simp [serve, List.zipIdx, initLive, h1, h2]
  rw [hs]
  simp [allSame, Ne.symm hne]

/-! ### the regenerated structure of `reloadConfig` -/

/-- runtime fields that do not carry configuration (the lock, the long-lived admission controller which is updated
    in place under the same write section, the clock) -/
def nonConfigFields : List String := ["mu", "adaptiveController", "now"]

def configFields : List String := Gen.runtimeFields.filter (fun f => !nonConfigFields.contains f)

theorem reload_fails_first : failsFirst Gen.reloadEvents = true := by decide
theorem reload_no_unlocked_write : hasUnlocked Gen.reloadEvents = false := by decide
theorem reload_single_write : (writes Gen.reloadEvents).length = 1 := by decide
theorem reload_covers : ∀ f ∈ configFields, f ∈ (writes Gen.reloadEvents).flatten := by decide

/-- **C18 for the code as it is now**: whatever give-up point fails, the live state is unchanged; and when the
    attempt succeeds every configuration field is at the new version. -/
theorem reload_all_or_nothing (failAt : Option Nat) (v0 v : Ver) :
    let r := run Gen.reloadEvents failAt (initLive configFields v0) v
    (r.2 = false → r.1 = initLive configFields v0) ∧ (r.2 = true → uniform r.1 v = true) := by
  refine ⟨failed_reload_unchanged _ reload_fails_first 0 failAt _ v, ?_⟩
  intro hs
  apply ok_reload_all_new _ _ _ _ _ hs
  intro p hp
  simp only [initLive, List.mem_map] at hp
  obtain ⟨f, hf, rfl⟩ := hp
  exact reload_covers f hf

/-- **…and no other goroutine can observe a state between old and new.** -/
theorem reload_observable_old_or_new (v0 v : Ver) :
    ∀ s ∈ observable (writes Gen.reloadEvents) (initLive configFields v0) v,
      s = initLive configFields v0 ∨ uniform s v = true := by
  have h1 := reload_single_write
  match hw : writes Gen.reloadEvents, h1 with
  | [fs], _ =>
    apply single_swap_atomic
    intro p hp
    simp only [initLive, List.mem_map] at hp
    obtain ⟨f, hf, rfl⟩ := hp
    have := reload_covers f hf
    rw [hw] at this
    simpa using this

/-- every accessor an ingress request calls reads only fields the single write section assigns, or non-config fields -/
theorem ingress_reads_covered :
    ∀ c ∈ Gen.ingressRequestCalls, ∀ p ∈ Gen.accessorReads, p.1 = c →
      ∀ f ∈ p.2, f ∈ nonConfigFields ∨ f ∈ (writes Gen.reloadEvents).flatten := by decide

end Hk.Reload

namespace Hk.FileAtomic

/-- **At every crash point of one replacement the path holds the complete old or the complete new content.** -/
theorem crash_old_or_new {α} (empty new : α) (d : Dir α) (htemp : d.temp = none) (k : Nat) :
    (finish empty new d (steps.take k)).target = d.target ∨ (finish empty new d (steps.take k)).target = some new := by
  obtain ⟨t, tmp⟩ := d
  simp only at htemp
  subst htemp
  match k with
  | 0 | 1 | 2 | 3 | 4 | 5 => left; rfl
  | 6 => right; rfl
  | k + 7 => right; simp [steps, finish, apply]

/-- the replacement completes with the new content in place and no temp file -/
theorem replace_complete {α} (empty new : α) (d : Dir α) (htemp : d.temp = none) :
    finish empty new d steps = { target := some new, temp := none } := by
  obtain ⟨t, tmp⟩ := d
  simp only at htemp
  subst htemp
  rfl

/-- the new content reaches the path only through `rename`, i.e. only after it was completely written and synced -/
theorem target_changes_only_at_rename {α} (empty new : α) (d : Dir α) (s : Step) (h : s ≠ .rename) :
    (apply empty new d s).target = d.target := by
  cases s <;> first | rfl | exact absurd rfl h

/-- **A management rewrite**: every directory state has the complete old or complete new content at the path; the
    final content is the new one iff the rewrite was applied, else the previous bytes are back. -/
theorem mutate_states_old_or_new {α} (empty old new : α) (o : Outcome) :
    ∀ d ∈ mutateTrace empty old new o, d.target = some old ∨ d.target = some new := by
  intro d hd
  cases o <;> simp only [mutateTrace, trace, steps, apply, finish, List.foldl, List.mem_cons, List.mem_append,
    List.mem_nil_iff, or_false] at hd
  · rcases hd with h | h | h | h | h | h | h <;> subst h <;> simp
  · rcases hd with (h | h | h | h | h | h | h) | (h | h | h | h | h | h | h) <;> subst h <;> simp

/-- calls that do not touch the directory content -/
def inertCalls : List String := ["MkdirAll", "FileMode", "Stat", "IsNotExist", "Name"]

/-- the names of the model's steps, in order -/
def stepNames : List String := ["CreateTemp", "Chmod", "Write", "Sync", "Close", "Rename", "syncDir"]

/-- **The code's `writeFileAtomic` (both copies) performs exactly the model's steps in the model's order** — regenerated from
    the source: any additional call on `os` or the temp file in the main flow (an unlink before the rename, a direct
    write to the path, a second rename) breaks this. -/
theorem wfa_steps_match_model :
    Gen.wfaStepsApp.filter (fun c => !inertCalls.contains c) = stepNames ∧
    Gen.wfaStepsMcp.filter (fun c => !inertCalls.contains c) = stepNames ∧ stepNames.length = steps.length := by decide

theorem mutate_final {α} (empty old new : α) (o : Outcome) :
    ((mutateTrace empty old new o).getLast?.map (·.target)) = some (some (if o = .applied then new else old)) := by
  cases o <;> simp [mutateTrace, trace, steps, apply, finish]

example : (mutateTrace "" "old" "new" .failed).map (·.target) =
    [some "old", some "old", some "old", some "old", some "old", some "new", some "new",
     some "new", some "new", some "new", some "new", some "new", some "old", some "old"] := by decide

end Hk.FileAtomic
