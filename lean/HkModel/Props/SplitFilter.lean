import HkModel.Proofs.C14Model
import HkModel.Model.SplitFilter
/-!
  The by-filter operator mutations **as SQLite implements them**: two steps that are NOT one transaction —
  `selectMessageIDsByFilter` in some state `q0`, then the by-ids operation of the same kind in whatever state `q` the
  store is in by then (`Props/SqliteTx.lean` pins that shape over regenerated facts: `by_filter_acts_through_the_checked_operation`).
  The queue model's `.byFilter` step is the atomic version (`q0 = q`). These theorems say what survives when other
  requests are served in between — for EVERY pair of states `q0`, `q`, i.e. whatever those requests did:

  * nothing outside the operation's states is touched at the moment it acts (C14 "only from the states the operation is
    defined for" — read at the time of the action, not of the selection);
  * in particular a message that was meanwhile requeued, leased and nacked with a delay keeps its due time, and a lease
    granted meanwhile survives a requeue / resume (C05, C03) — the outcome `hkharness concx` scenario *interposed*
    demands of the implementation;
  * every message it does change is one the selection named and ends in exactly the operation's target state;
  * with nothing in between it is the model's atomic step.
-/
namespace Hk
namespace SplitFilter
open Hk.Obs Hk.P14.C14P

/-- what became of message `m` of `q` -/
def after (now : Int) (k : IdKind) (f : Filter) (q0 q : Q) (m : Msg) : Option Msg :=
  find (splitByFilter now k f q0 q).1.msgs m.id

theorem after_eq {now : Int} {k : IdKind} {f : Filter} {q0 q : Q} (hinv : Inv q) {m : Msg} (hm : m ∈ q.msgs) :
    after now k f q0 q m = opf now k (selectFilter k f q0.msgs) m := by
  unfold after splitByFilter
  show find (applyIds now k (selectFilter k f q0.msgs) q.msgs) m.id = _
  rw [applyIds_eq]
  exact find_filterMap (opf_id now k _) hinv.nodup hm

/-- **only from the states the operation is defined for, judged when it acts**: whatever happened since the selection, a
    message that is not in one of the operation's states at that moment is left exactly as it is -/
theorem untouched_outside_allowed_states {now : Int} {k : IdKind} {f : Filter} {q0 q : Q} (hinv : Inv q)
    {m : Msg} (hm : m ∈ q.msgs) (hst : (allowedStates k).contains m.st = false) :
    after now k f q0 q m = some m := by
  rw [after_eq hinv hm, opf, selectedBy, hst, Bool.and_false]
  rfl

/-- a message nobody selected is left as it is, whatever its state -/
theorem untouched_when_not_selected {now : Int} {k : IdKind} {f : Filter} {q0 q : Q} (hinv : Inv q)
    {m : Msg} (hm : m ∈ q.msgs) (hsel : (selectFilter k f q0.msgs).contains m.id = false) :
    after now k f q0 q m = some m := by
  rw [after_eq hinv hm, opf, selectedBy, hsel, Bool.false_and]
  rfl

/-- **C05 across an overlapping requeue / resume**: a message that is `queued` when the second step runs — e.g. because it was
    requeued by somebody else, leased and nacked with a delay in between — keeps its due time (and everything else) -/
theorem nack_delay_survives_overlapping_requeue {now : Int} {k : IdKind} {f : Filter} {q0 q : Q} (hinv : Inv q)
    {m : Msg} (hm : m ∈ q.msgs) (hq : m.st = .queued) (hk : k ≠ .cancel) :
    after now k f q0 q m = some m := by
  apply untouched_outside_allowed_states hinv hm
  cases k <;> simp_all [allowedStates]

/-- **C03 across an overlapping requeue / resume**: a lease granted in between is still held afterwards -/
theorem lease_survives_overlapping_requeue {now : Int} {k : IdKind} {f : Filter} {q0 q : Q} (hinv : Inv q)
    {m : Msg} (hm : m ∈ q.msgs) (hl : m.st = .leased) (hk : k ≠ .cancel) :
    after now k f q0 q m = some m := by
  apply untouched_outside_allowed_states hinv hm
  cases k <;> simp_all [allowedStates]

/-- a delivered message is never brought back, by any operator operation, however stale its selection -/
theorem delivered_never_revived {now : Int} {k : IdKind} {f : Filter} {q0 q : Q} (hinv : Inv q)
    {m : Msg} (hm : m ∈ q.msgs) (hd : m.st = .delivered) :
    after now k f q0 q m = some m := by
  apply untouched_outside_allowed_states hinv hm
  cases k <;> simp_all [allowedStates]

/-- every message the operation changes was named by the selection, was in one of the operation's states when it acted,
    and is now exactly what the operation makes of it -/
theorem changed_only_as_defined {now : Int} {k : IdKind} {f : Filter} {q0 q : Q} (hinv : Inv q)
    {m : Msg} (hm : m ∈ q.msgs) (hch : after now k f q0 q m ≠ some m) :
    (selectFilter k f q0.msgs).contains m.id = true ∧ (allowedStates k).contains m.st = true ∧
      after now k f q0 q m = operate now k m := by
  rw [after_eq hinv hm] at hch ⊢
  unfold opf at hch ⊢
  by_cases hs : selectedBy k (selectFilter k f q0.msgs) m = true
  · rw [if_pos hs]
    simp only [selectedBy, Bool.and_eq_true] at hs
    exact ⟨hs.1, hs.2, rfl⟩
  · rw [if_neg hs] at hch
    exact absurd rfl hch

/-- nothing appears that was not there -/
theorem nothing_created {now : Int} {k : IdKind} {f : Filter} {q0 q : Q} (hinv : Inv q)
    {m' : Msg} (hm' : m' ∈ (splitByFilter now k f q0 q).1.msgs) : (find q.msgs m'.id).isSome = true := by
  unfold splitByFilter at hm'
  simp only at hm'
  rw [applyIds_eq] at hm'
  exact isSome_find_of_filterMap (opf_id now k _) hinv.nodup hm'

/-- with nothing in between (`q0 = q`) the two steps are the model's atomic by-filter step: same store, same counts -/
theorem quiet_split_is_atomic (c : Cfg) (now : Int) (k : IdKind) (f : Filter) (q : Q) (ch : Choice)
    (hp : f.preview = false) :
    step c now q (.byFilter k f) ch =
      some ((splitByFilter now k f q q).1, .count (selectFilter k f q.msgs).length (selectFilter k f q.msgs).length false) := by
  simp [step, hp, splitByFilter]

/-! ### non-vacuity: the interposed history of the harness, in the model -/

private def demoMsg (st : St) (next : Int) : Msg :=
  { id := "ip-0", route := "/p", target := "pull", st := st, recv := 10, next := next, attempt := 1, payload := "x",
    headers := "", trace := "", reason := "", lease := "", luntil := 0 }

/-- the store when the second step runs: the message was requeued by somebody else, leased and nacked with one hour meanwhile -/
private def demoQ : Q := { msgs := [demoMsg .queued 3_600_000_000_100] }

private theorem demoInv : Inv demoQ := by
  constructor <;> simp [demoQ, demoMsg]

/-- the selection, taken while the message was dead, names it … -/
example : selectFilter .requeue { route := "/p", state := "dead" } [demoMsg .dead 0] = ["ip-0"] := by decide +kernel

/-- … and the second step leaves it alone: the hypotheses of `nack_delay_survives_overlapping_requeue` are met -/
example :
    after 200 .requeue { route := "/p", state := "dead" } { msgs := [demoMsg .dead 0] } demoQ (demoMsg .queued 3_600_000_000_100) =
      some (demoMsg .queued 3_600_000_000_100) :=
  nack_delay_survives_overlapping_requeue demoInv (by simp [demoQ]) rfl (by decide)

/-- while a message that IS still dead when the second step runs is requeued (the operation is not vacuous) -/
example :
    after 200 .requeue { route := "/p", state := "dead" } { msgs := [demoMsg .dead 0] } { msgs := [demoMsg .dead 0] } (demoMsg .dead 0) =
      some (demoMsg .queued 200) := by decide +kernel

end SplitFilter
end Hk
