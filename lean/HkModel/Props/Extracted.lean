import HkModel.Generated.Caps
import HkModel.Generated.SqlGuards
import HkModel.Model.Queue
import HkModel.Model.Egress
/-!
  Theorems over the facts REGENERATED from /repo on every run (go/ast extractor): the numeric caps and defaults
  the queue model uses are the ones in the Go source, and the SQL mutation statements of the durable stores carry
  the guards the lease/operator theorems rely on. A harmless rewrite of the Go code can break these syntactic facts
  (then the check reports `no-failing-input-found`); a real change of a cap or a dropped guard breaks them too.
-/
namespace Hk.Gen

def capOf (file fn ident guard : String) : Option Int :=
  (capFacts.find? (fun f => f.1 == file && f.2.1 == fn && f.2.2.1 == ident && f.2.2.2.1 == guard)).map (·.2.2.2.2)

/-- the batch/TTL normalisation of the model (`effBatch`, `effTTL`) uses the constants of both executable stores -/
theorem dequeue_caps_match_model :
    capOf "internal/queue/memory.go" "MemoryStore.Dequeue" "batch" ">100" = some 100 ∧
    capOf "internal/queue/memory.go" "MemoryStore.Dequeue" "batch" "<=0" = some 1 ∧
    capOf "internal/queue/memory.go" "MemoryStore.Dequeue" "leaseTTL" "<=0" = some 30000000000 ∧
    capOf "internal/queue/sqlite.go" "SQLiteStore.Dequeue" "batch" ">100" = some 100 ∧
    capOf "internal/queue/sqlite.go" "SQLiteStore.Dequeue" "batch" "<=0" = some 1 ∧
    capOf "internal/queue/sqlite.go" "SQLiteStore.Dequeue" "leaseTTL" "<=0" = some 30000000000 ∧
    Hk.effBatch 101 = 100 ∧ Hk.effBatch 0 = 1 ∧ Hk.effBatch (-5) = 1 ∧ Hk.effBatch 100 = 100 ∧ Hk.effTTL 0 = 30000000000 := by
  decide

/-- list / filter limits: default 100, cap 1000, in every listing function of both executable stores -/
theorem list_caps_match_model :
    (["MemoryStore.ListDead", "MemoryStore.ListMessages", "MemoryStore.filterManageCandidatesLocked"].all (fun fn =>
      capOf "internal/queue/memory.go" fn "limit" "<=0" == some 100 && capOf "internal/queue/memory.go" fn "limit" ">1000" == some 1000)) = true ∧
    (["SQLiteStore.ListDead", "SQLiteStore.ListMessages", "SQLiteStore.selectMessageIDsByFilter"].all (fun fn =>
      capOf "internal/queue/sqlite.go" fn "limit" "<=0" == some 100 && capOf "internal/queue/sqlite.go" fn "limit" ">1000" == some 1000)) = true ∧
    Hk.effLimit 0 = 100 ∧ Hk.effLimit 1001 = 1000 ∧ Hk.effLimit (-1) = 100 := by
  decide

/-- the SQLite lease sweep granularity the C05 bound speaks of, and the redirect hop limit of C16 -/
theorem named_constants :
    namedConsts.lookup "defaultSQLiteLeaseSweepInterval" = some 10000000 ∧
    namedConsts.lookup "checkRedirect.maxVia" = some 10 := by decide

def stmtsOf (backend : String) (fns : List String) : List SqlStmt :=
  sqlStmts.filter (fun s => s.backend == backend && fns.contains s.fn)

/-- **SQL guard discipline (SQLite)**: every single-lease mutation is fenced by state, lease id and lease expiry;
    every operator mutation by state and id list; the expiry sweep by state and lease expiry; prune and eviction by
    state (so never a leased row). -/
theorem sqlite_guards :
    (stmtsOf "sqlite" ["Ack", "Nack", "Extend", "MarkDead"]).length = 5 ∧
    (stmtsOf "sqlite" ["Ack", "Nack", "Extend", "MarkDead"]).all (fun s => s.gState && s.gLeaseId && s.gLeaseUntil) = true ∧
    (stmtsOf "sqlite" ["CancelMessages", "RequeueMessages", "ResumeMessages", "RequeueDead", "DeleteDead"]).length = 5 ∧
    (stmtsOf "sqlite" ["CancelMessages", "RequeueMessages", "ResumeMessages", "RequeueDead", "DeleteDead"]).all (fun s => s.gState && s.gIdIn) = true ∧
    (stmtsOf "sqlite" ["requeueExpiredLeases"]).all (fun s => s.gState && s.gLeaseUntil) = true ∧
    (stmtsOf "sqlite" ["requeueExpiredLeases"]).length = 1 ∧
    (stmtsOf "sqlite" ["maybePrune", "dropOldestQueued"]).all (fun s => s.gState) = true ∧
    (stmtsOf "sqlite" ["maybePrune", "dropOldestQueued"]).length = 5 := by
  decide

/-- PostgreSQL cannot be executed in this sandbox: only this syntactic discipline is checked for it
    (lease and operator mutations are state-guarded and keyed by id). -/
theorem postgres_guards :
    (stmtsOf "postgres" ["Ack", "Nack", "Extend", "MarkDead", "CancelMessages", "RequeueMessages", "ResumeMessages",
      "RequeueDead", "DeleteDead"]).all (fun s => s.gState && s.gIdIn) = true := by
  decide

end Hk.Gen
