import HkModel.Model.Egress
import HkModel.Model.Dispatch
/-! C16 — egress policy on every delivery and redirect hop. Property theorems. -/
namespace Hk.Egress

/-- **Rebind protection is sound**: an address the implementation-shaped predicate lets through is in none of
    the listed classes (loopback, private, link-local, multicast, unspecified; v4, v6 and v4-mapped). -/
theorem allowedIP_not_blocked (ip : IP) (hv4 : ip.v4 = true → ip.n < 4294967296)
    (hv6 : ip.v4 = false → ip.n < 340282366920938463463374607431768211456)
    (h : isAllowedIP ip = true) : ¬ blocked ip := by
  unfold isAllowedIP at h
  unfold blocked
  cases hv : ip.v4
  · simp only [hv, Bool.false_eq_true, ite_false] at h ⊢
    have := hv6 hv
    simp only [Bool.and_eq_true, Bool.not_eq_true', Bool.or_eq_false_iff, beq_eq_false_iff_ne, ne_eq,
      Bool.and_eq_false_imp, beq_iff_eq] at h
    omega
  · simp only [hv, ite_true] at h ⊢
    have := hv4 hv
    simp only [Bool.and_eq_true, Bool.not_eq_true', Bool.or_eq_false_iff, beq_eq_false_iff_ne, ne_eq, bne_iff_ne,
      Bool.and_eq_false_imp, beq_iff_eq] at h
    omega

theorem check_allowed_cases (p : Policy) (scheme hostname : String) (lit : Option IP) (ans : Option (List IP))
    (h : check p scheme hostname lit ans = .allowed) :
    (lower scheme = "http" ∨ lower scheme = "https") ∧ (p.httpsOnly = true → lower scheme = "https") ∧
    normHost hostname ≠ "" ∧
    ∃ ips, resolve p lit ans = some ips ∧
      (p.rebind = true → ∀ ip ∈ ips, isAllowedIP ip = true) ∧
      (p.deny ≠ [] → matchRules (normHost hostname) ips p.deny = false) ∧
      (p.allow ≠ [] → matchRules (normHost hostname) ips p.allow = true) := by
  unfold check at h
  simp only at h
  split at h
  · cases h
  · rename_i hs
    split at h
    · cases h
    · rename_i hh
      split at h
      · cases h
      · rename_i hhost
        split at h
        · cases h
        · rename_i ips hres
          split at h
          · cases h
          · rename_i hreb
            split at h
            · cases h
            · rename_i hdeny
              split at h
              · cases h
              · rename_i hallow
                simp only [Bool.and_eq_true, bne_iff_ne, ne_eq, not_and, Classical.not_not] at hs
                refine ⟨?_, ?_, ?_, ips, hres, ?_, ?_, ?_⟩
                · by_cases h1 : lower scheme = "http"
                  · exact Or.inl h1
                  · exact Or.inr (hs h1)
                · intro hp
                  simp only [hp, Bool.true_and, bne_iff_ne, ne_eq, Classical.not_not] at hh
                  exact hh
                · simpa using hhost
                · intro hr ip hip
                  simp only [hr, Bool.true_and, Bool.not_eq_true', Bool.not_eq_false] at hreb
                  exact List.all_eq_true.mp (by simpa using hreb) ip hip
                · intro hne
                  have : p.deny.isEmpty = false := by cases hd : p.deny <;> simp_all
                  simpa [this] using hdeny
                · intro hne
                  have : p.allow.isEmpty = false := by cases hd : p.allow <;> simp_all
                  simpa [this] using hallow

/-- http/https only, https when `https_only` -/
theorem allowed_implies_scheme (p : Policy) (scheme hostname : String) (lit ans)
    (h : check p scheme hostname lit ans = .allowed) :
    (lower scheme = "http" ∨ lower scheme = "https") ∧ (p.httpsOnly = true → lower scheme = "https") :=
  ⟨(check_allowed_cases p scheme hostname lit ans h).1, (check_allowed_cases p scheme hostname lit ans h).2.1⟩

/-- with `dns_rebind_protection`, no address the host resolves to (at the time of the check) is in a listed class -/
theorem rebind_sound (p : Policy) (scheme hostname : String) (lit ans) (hr : p.rebind = true)
    (h : check p scheme hostname lit ans = .allowed) :
    ∃ ips, resolve p lit ans = some ips ∧
      ∀ ip ∈ ips, (ip.v4 = true → ip.n < 4294967296) → (ip.v4 = false → ip.n < 340282366920938463463374607431768211456) →
        ¬ blocked ip := by
  obtain ⟨_, _, _, ips, hres, hall, _, _⟩ := check_allowed_cases p scheme hostname lit ans h
  exact ⟨ips, hres, fun ip hip h4 h6 => allowedIP_not_blocked ip h4 h6 (hall hr ip hip)⟩

/-- with protection on, a literal address is itself checked (never skipped) -/
theorem rebind_checks_literal (p : Policy) (ip : IP) (ans) (hr : p.rebind = true) :
    resolve p (some ip) ans = some [ip] := by
  simp [resolve, hr]

/-- deny rules win over allow rules -/
theorem deny_wins (p : Policy) (scheme hostname : String) (lit ans) (ips : List IP)
    (hres : resolve p lit ans = some ips) (hd : matchRules (normHost hostname) ips p.deny = true) :
    check p scheme hostname lit ans ≠ .allowed := by
  intro h
  obtain ⟨_, _, _, ips', hres', _, hdeny, _⟩ := check_allowed_cases p scheme hostname lit ans h
  rw [hres] at hres'; cases hres'
  have hne : p.deny ≠ [] := by
    intro he; simp [matchRules, he] at hd
  rw [hdeny hne] at hd; cases hd

/-- when an allowlist exists the host or one of its addresses must match it -/
theorem allowlist_required (p : Policy) (scheme hostname : String) (lit ans) (hne : p.allow ≠ [])
    (h : check p scheme hostname lit ans = .allowed) :
    ∃ ips, resolve p lit ans = some ips ∧ matchRules (normHost hostname) ips p.allow = true := by
  obtain ⟨_, _, _, ips, hres, _, _, hallow⟩ := check_allowed_cases p scheme hostname lit ans h
  exact ⟨ips, hres, hallow hne⟩

/-- `*.domain` matches sub-domains only: never the apex, and only across a label boundary -/
theorem wildcard_subdomain_only (host d : String) (hd : d ≠ "" ∧ d ≠ "*") (hh : host ≠ "") :
    matchHostRule host { host := d, sub := true } = true ↔
      host ≠ d ∧ endsWith host.toList ('.' :: d.toList) = true := by
  unfold matchHostRule
  simp [hd.1, hd.2, hh]

/-- exact rules match exactly -/
theorem exact_rule (host d : String) (hd : d ≠ "" ∧ d ≠ "*") (hh : host ≠ "") :
    matchHostRule host { host := d, sub := false } = true ↔ host = d := by
  unfold matchHostRule; simp [hd.1, hd.2, hh]

/-! ### redirects -/

theorem sentAux_mono (p : Policy) : ∀ (chain : List Hop) (s : Nat), 0 < s → s ≤ sentAux p chain s := by
  intro chain
  induction chain with
  | nil => intro s _; simp [sentAux]
  | cons h rest ih =>
    intro s hs
    simp only [sentAux]
    have : (s == 0) = false := by simp; omega
    simp only [this, Bool.false_eq_true, ite_false]
    split
    · have := ih (s + 1) (by omega); omega
    · omega

/-- every request that leaves was for a hop the policy allowed: the i-th hop is sent only if hops 0..i all pass -/
theorem every_hop_checked (p : Policy) : ∀ (chain : List Hop) (s : Nat) (pre : List Hop),
    pre.length = s → (∀ h ∈ pre, hopOK p h = true) →
    ∀ i, i < sentAux p chain s → ∀ h, (pre ++ chain)[i]? = some h → hopOK p h = true := by
  intro chain
  induction chain with
  | nil =>
    intro s pre hl hpre i hi h hget
    simp only [sentAux] at hi
    simp only [List.append_nil] at hget
    exact hpre h (List.mem_of_getElem? hget)
  | cons x rest ih =>
    intro s pre hl hpre i hi h hget
    simp only [sentAux] at hi
    by_cases hs0 : s = 0
    · subst hs0
      simp only [beq_self_eq_true, ite_true] at hi
      have hpn : pre = [] := List.length_eq_zero_iff.mp hl
      subst hpn
      split at hi
      · rename_i hx
        have := ih 1 [x] rfl (by simpa using hx) i hi h (by simpa using hget)
        exact this
      · omega
    · have : (s == 0) = false := by simp; omega
      simp only [this, Bool.false_eq_true, ite_false] at hi
      split at hi
      · rename_i hc
        simp only [Bool.and_eq_true] at hc
        have := ih (s + 1) (pre ++ [x]) (by simp [hl]) (by
          intro y hy; simp only [List.mem_append, List.mem_singleton] at hy
          rcases hy with hy | rfl
          · exact hpre y hy
          · exact hc.2) i hi h (by simpa using hget)
        exact this
      · have hlt : i < pre.length := by omega
        rw [List.getElem?_append_left hlt] at hget
        exact hpre h (List.mem_of_getElem? hget)

/-- redirects off ⇒ at most the first request is sent -/
theorem redirects_off_one_request (p : Policy) (hr : p.redirects = false) (chain : List Hop) : sent p chain ≤ 1 := by
  unfold sent
  cases chain with
  | nil => simp [sentAux]
  | cons h rest =>
    simp only [sentAux, beq_self_eq_true, ite_true]
    split
    · cases rest with
      | nil => simp [sentAux]
      | cons h2 r2 => simp [sentAux, hr]
    · omega

/-- a denied target sends nothing at all -/
theorem denied_sends_nothing (p : Policy) (h : Hop) (rest : List Hop) (hd : hopOK p h = false) :
    sent p (h :: rest) = 0 := by
  simp [sent, sentAux, hd]

/-- at most 11 requests (target + 10 redirects) -/
theorem at_most_ten_redirects (p : Policy) : ∀ (chain : List Hop) (s : Nat), s ≤ 11 → sentAux p chain s ≤ 11 := by
  intro chain
  induction chain with
  | nil => intro s hs; simpa [sentAux] using hs
  | cons h rest ih =>
    intro s hs
    simp only [sentAux]
    split
    · split
      · exact ih 1 (by omega)
      · omega
    · split
      · rename_i hc
        simp only [Bool.and_eq_true, decide_eq_true_eq] at hc
        exact ih (s + 1) (by omega)
      · exact hs

/-- a policy denial is dead-lettered without retry (C06's classifier) -/
theorem policy_denied_no_retry (attempt max : Int) :
    Hk.Dispatch.classify .policyDenied attempt max = .dead "policy_denied" := by
  simp [Hk.Dispatch.classify, Hk.Dispatch.isSuccess, Hk.Dispatch.shouldRetry]

/-! ### non-vacuity -/
example : isAllowedIP ⟨true, 134744072⟩ = true ∧ isAllowedIP ⟨true, 2130706433⟩ = false ∧   -- 8.8.8.8, 127.0.0.1
    isAllowedIP ⟨true, 167772161⟩ = false ∧ isAllowedIP ⟨false, 1⟩ = false := by decide
example : check { rebind := true } "https" "Example.COM." none (some [⟨true, 134744072⟩]) = .allowed := by decide
example : check { rebind := true } "https" "example.com" none (some [⟨true, 134744072⟩, ⟨true, 167772161⟩]) = .denied := by decide
example : matchHostRule "a.example.com" { host := "example.com", sub := true } = true ∧
    matchHostRule "example.com" { host := "example.com", sub := true } = false ∧
    matchHostRule "evilexample.com" { host := "example.com", sub := true } = false := by decide

end Hk.Egress
