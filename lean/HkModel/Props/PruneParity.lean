/-
  Retention prune rules of the durable stores, read off their SQL (C13 "and Postgres"; C02 "a retention prune it is eligible for").

  PostgreSQL cannot be executed in this sandbox. What can be done is to read its statements and compare them with SQLite's,
  which *are* executed against the model on every run. This file does that for the age-based retention DELETEs of
  `maybePrune` (`Generated/PruneRules.lean`, regenerated on every run):

  * `sqlite_prune_rules_are_the_models` — the SQLite rules, given the obvious semantics, are exactly the queue model's
    `ageEligible` for every configuration, instant and message;
  * `postgres_prune_differences` — the complete list of differences between the PostgreSQL and the SQLite rules **today**
    (a known finding, see DESIGN §5: delivered messages are aged by `received_at`, not by the time of delivery, and every
    cutoff is exclusive); any other difference, or the disappearance of one, breaks this theorem;
  * `pinned_postgres_prunes_fresh_delivery`, `pinned_postgres_keeps_boundary` — model-level witnesses of what the two
    differences mean for a user.
-/
import HkModel.Model.Queue
import HkModel.Generated.PruneRules

namespace Hk.PruneParity

abbrev Rule := String × String × String   -- state, column, comparator

def rulesOf (backend : String) : List Rule :=
  (Gen.pruneRules.filter (·.1 == backend)).map (·.2)

def colOf (col : String) (m : Msg) : Option Int :=
  if col == "received_at" then some m.recv else if col == "next_run_at" then some m.next else none

def cmpOf (cmp : String) (a b : Int) : Bool :=
  if cmp == "<=" then decide (a ≤ b) else if cmp == "<" then decide (a < b) else false

def retOf (c : Cfg) (st : String) : Int :=
  if st == "queued" then c.retention else if st == "dead" then c.dlqRet else if st == "delivered" then c.deliveredRet else 0

/-- a message is deleted by the age-based statements of a rule set -/
def eligibleBy (rules : List Rule) (c : Cfg) (now : Int) (m : Msg) : Bool :=
  rules.any fun (st, col, cmp) =>
    m.st.toString == st && decide (retOf c st > 0) &&
      (match colOf col m with
       | some v => cmpOf cmp v (now - retOf c st)
       | none => false)

/-- SQLite's statements delete exactly what the model's `ageEligible` says — every configuration, instant, message -/
theorem sqlite_prune_rules_are_the_models (c : Cfg) (now : Int) (m : Msg) :
    eligibleBy (rulesOf "sqlite") c now m = ageEligible c now m := by
  have hr : rulesOf "sqlite" = [("queued", "received_at", "<="), ("delivered", "next_run_at", "<="), ("dead", "received_at", "<=")] := by decide
  rw [hr]
  cases hm : m.st <;>
    simp [eligibleBy, ageEligible, hm, St.toString, retOf, colOf, cmpOf,
      show ∀ a b : St, (a == b) = decide (a = b) from fun _ _ => rfl]

/-- differences of a backend's rules from SQLite's: (state, what, sqlite has, backend has) -/
def diffs (backend : String) : List (String × String × String × String) :=
  (rulesOf "sqlite").flatMap fun (st, col, cmp) =>
    match (rulesOf backend).find? (·.1 == st) with
    | none => [(st, "missing", col ++ " " ++ cmp, "")]
    | some (_, col', cmp') =>
      (if col' != col then [(st, "column", col, col')] else []) ++ (if cmp' != cmp then [(st, "cmp", cmp, cmp')] else [])

/-- the differences between PostgreSQL's and SQLite's age rules are exactly these (known finding `postgres:prune:*`) -/
theorem postgres_prune_differences :
    diffs "postgres" = [("queued", "cmp", "<=", "<"), ("delivered", "column", "next_run_at", "received_at"),
                        ("delivered", "cmp", "<=", "<"), ("dead", "cmp", "<=", "<")] ∧
    (rulesOf "postgres").length = (rulesOf "sqlite").length := by decide

def sampleMsg (st : St) (recv next : Int) : Msg :=
  { id := "m", route := "/r", target := "pull", st := st, recv := recv, next := next,
    attempt := 1, payload := "", headers := "", trace := "", reason := "", lease := "", luntil := 0 }

/-- what the column difference means: received two days ago, delivered a minute ago, `delivered_retention 24h` — SQLite and
    the memory store keep it for another day, PostgreSQL deletes it at the next prune (times in seconds) -/
theorem pinned_postgres_prunes_fresh_delivery :
    eligibleBy (rulesOf "postgres") { deliveredRet := 86400 } 864000 (sampleMsg .delivered (864000 - 172800) (864000 - 60)) = true ∧
    ageEligible { deliveredRet := 86400 } 864000 (sampleMsg .delivered (864000 - 172800) (864000 - 60)) = false := by decide

/-- what the comparator difference means: a message whose age is exactly `max_age` is pruned by SQLite / memory and kept by
    PostgreSQL -/
theorem pinned_postgres_keeps_boundary :
    eligibleBy (rulesOf "postgres") { retention := 100 } 1000 (sampleMsg .queued 900 900) = false ∧
    ageEligible { retention := 100 } 1000 (sampleMsg .queued 900 900) = true := by decide

end Hk.PruneParity
