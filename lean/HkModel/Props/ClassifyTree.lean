/-
  `classifyDelivery` as written is the model's `classify` (C06) — by translation, for every delivery result.

  `Model/Dispatch.classify` is hand-written and tied to the code by an exhaustive status table run through the real function.
  This file adds the other kind of tie for the same function: the extractor turns the body of
  `PushDispatcher.classifyDelivery` into a little straight-line program (`Generated/ClassifyTree.lean`: if / else / endif with
  the condition's source text, assignments to the outcome and the dead reason, `recordAttempt` calls, returns with the kind of
  lease action), `interp` below runs that program on the four facts the conditions read — is the result a success, is it
  retryable, is the attempt number within `retry.max`, is the error a policy denial — and the theorems say, for **every**
  combination:

  * `code_classify_is_model` — the action the program returns is `classify`'s, and
  * `code_records_every_attempt` — before it returns, the program has called `recordAttempt` after its last write to the
    attempt's outcome, and the outcome recorded matches the action (acked / retry / dead + the reason): "every attempt is
    recorded with its outcome".

  A condition the interpreter does not know, a return of another shape, a new branch: `interp` answers `none` and the
  theorems fail — the function no longer has the shape that was translated.
-/
import HkModel.Model.Dispatch
import HkModel.Generated.ClassifyTree

namespace Hk.ClassifyTree
open Hk.Dispatch

/-- the facts the conditions of `classifyDelivery` read -/
structure Facts where
  success : Bool        -- isSuccess(res)
  retryable : Bool      -- shouldRetry(res)
  within : Bool         -- env.Attempt <= target.Retry.Max
  denied : Bool         -- errors.Is(res.Err, ErrPolicyDenied)
  deriving DecidableEq, Repr

/-- conditions by their source text; `none` = unknown to this translation -/
def cond (f : Facts) (shouldRetryVar : Option Bool) (c : String) : Option Bool :=
  if c == "isSuccess(res)" then some f.success
  else if c == "shouldRetry && env.Attempt <= target.Retry.Max" then shouldRetryVar.map (· && f.within)
  else if c == "errors.Is(res.Err, ErrPolicyDenied)" then some f.denied
  else if c == "shouldRetry" then shouldRetryVar
  -- conditions that do not bear on the decision (defaults, logging, copying the error text): either way
  else if c == "logger == nil" || c == "timeout <= 0" || c == "res.Err != nil" then some false
  else none

structure St where
  shouldRetry : Option Bool := none
  reason : String := ""
  outcome : String := ""
  deadReason : String := ""
  recordedOutcome : Option (String × String) := none   -- (outcome, dead reason) at the last recordAttempt
  delivered : Bool := false
  deriving Repr

/-- skip to the matching `else` (if `stopAtElse`) or `endif` of the `if` just entered -/
def skip (stopAtElse : Bool) : Nat → List (String × String) → List (String × String)
  | _, [] => []
  | depth, (k, _) :: rest =>
    if k == "if" then skip stopAtElse (depth + 1) rest
    else if k == "endif" then (if depth == 0 then rest else skip stopAtElse (depth - 1) rest)
    else if k == "else" && depth == 0 && stopAtElse then rest
    else skip stopAtElse depth rest

structure Out where
  action : String            -- kind of the lease action returned (+ its delay / reason fields)
  recorded : Option (String × String)
  reason : String
  delivered : Bool
  deriving DecidableEq, Repr

/-- run the program (fuel = its length) -/
def interp (f : Facts) : Nat → St → List (String × String) → Option Out
  | 0, _, _ => none
  | _, _, [] => none
  | fuel + 1, s, (k, v) :: rest =>
    if k == "if" then
      match cond f s.shouldRetry v with
      | none => none
      | some true => interp f fuel s rest
      | some false => interp f fuel s (skip true 0 rest)
    else if k == "else" then interp f fuel s (skip false 0 rest)     -- reached the end of a taken branch
    else if k == "endif" then interp f fuel s rest
    else if k == "call" then
      if v == "Deliver" then interp f fuel { s with delivered := true } rest
      else if v == "recordAttempt" then interp f fuel { s with recordedOutcome := some (s.outcome, s.deadReason) } rest
      else none
    else if k == "shouldRetry" then
      if v == "shouldRetry(res)" then interp f fuel { s with shouldRetry := some f.retryable } rest else none
    else if k == "delay" then interp f fuel s rest
    else if k == "reason" then interp f fuel { s with reason := v, recordedOutcome := s.recordedOutcome } rest
    else if k == "outcome" then interp f fuel { s with outcome := v, recordedOutcome := none } rest
    else if k == "dead_reason" then
      if v == "reason" then interp f fuel { s with deadReason := s.reason, recordedOutcome := none } rest else none
    else if k == "return" then some { action := v, recorded := s.recordedOutcome, reason := s.reason, delivered := s.delivered }
    else none

def run (f : Facts) : Option Out := interp f (Gen.classifyEvents.length + 1) {} Gen.classifyEvents

/-- the model's decision on the same facts -/
def spec (f : Facts) : Act :=
  if f.success then .ack
  else if f.retryable && f.within then .retry
  else if f.denied then .dead "policy_denied"
  else if f.retryable then .dead "max_retries"
  else .dead "no_retry"

/-- `spec` is `classify` read through the facts — for every result, attempt number and `retry.max` -/
theorem spec_is_classify (r : Res) (attempt max : Int) :
    spec { success := isSuccess r, retryable := shouldRetry r, within := decide (attempt ≤ max), denied := (r == .policyDenied) }
      = classify r attempt max := by
  unfold spec classify
  simp only []

/-- how an action and a recorded outcome look in the program's terms -/
def actionText : Act → String
  | .ack => "leaseActionAck leaseID=env.LeaseID"
  | .retry => "leaseActionNack leaseID=env.LeaseID delay=delay"
  | .dead _ => "leaseActionMarkDead leaseID=env.LeaseID reason=reason"

def recordText : Act → String × String
  | .ack => ("queue.AttemptOutcomeAcked", "")
  | .retry => ("queue.AttemptOutcomeRetry", "")
  | .dead r => ("queue.AttemptOutcomeDead", "\"" ++ r ++ "\"")

def allFacts : List Facts :=
  [true, false].flatMap fun a => [true, false].flatMap fun b => [true, false].flatMap fun c => [true, false].map fun d =>
    { success := a, retryable := b, within := c, denied := d }

theorem allFacts_complete (f : Facts) : f ∈ allFacts := by
  cases f with | mk a b c d => cases a <;> cases b <;> cases c <;> cases d <;> decide

/-- **the code's decision tree is the model's `classify`** (all sixteen combinations of the facts, by evaluation of the
    translated program) -/
theorem code_classify_is_model_facts :
    allFacts.all (fun f => (run f).map (·.action) == some (actionText (spec f))) = true := by decide

theorem code_classify_is_model (r : Res) (attempt max : Int) :
    (run { success := isSuccess r, retryable := shouldRetry r, within := decide (attempt ≤ max), denied := (r == .policyDenied) }).map (·.action)
      = some (actionText (classify r attempt max)) := by
  have h := List.all_eq_true.mp code_classify_is_model_facts _ (allFacts_complete
    { success := isSuccess r, retryable := shouldRetry r, within := decide (attempt ≤ max), denied := (r == .policyDenied) })
  rw [← spec_is_classify]
  exact eq_of_beq h

/-- **every attempt is recorded with its outcome**: on every path the program has delivered, and the last `recordAttempt`
    came after the last write to the attempt's outcome / dead reason and carries the outcome that belongs to the action -/
theorem code_records_every_attempt :
    allFacts.all (fun f =>
      match run f with
      | some o => o.delivered && o.recorded == some (recordText (spec f))
      | none => false) = true := by decide

/-- non-vacuity: a program that returns before recording, or with an unknown condition, is rejected -/
example : interp { success := true, retryable := false, within := true, denied := false } 9 {}
    [("call", "Deliver"), ("if", "isSuccess(res)"), ("outcome", "queue.AttemptOutcomeAcked"), ("return", "leaseActionAck leaseID=env.LeaseID")]
    = some { action := "leaseActionAck leaseID=env.LeaseID", recorded := none, reason := "", delivered := true } := by decide
example : interp { success := true, retryable := false, within := true, denied := false } 9 {} [("if", "res.StatusCode == 204")] = none := by decide

end Hk.ClassifyTree
