import HkModel.Model.Base64
import HkModel.Model.Fidelity
/-! C07 — payload and header fidelity. Property theorems (part 1: base64 round trip for every byte string). -/
namespace Hk.Base64

set_option maxRecDepth 20000 in
theorem dec6_enc6 : ∀ n : Fin 64, dec6 (enc6 n.val) = some n.val := by decide

set_option maxRecDepth 20000 in
theorem enc6_ne_pad : ∀ n : Fin 64, (enc6 n.val == '=') = false := by decide

theorem dec6_enc6' (n : Nat) (h : n < 64) : dec6 (enc6 n) = some n := dec6_enc6 ⟨n, h⟩
theorem enc6_ne_pad' (n : Nat) (h : n < 64) : (enc6 n == '=') = false := enc6_ne_pad ⟨n, h⟩

theorem u8_ofNat_toNat (a : UInt8) (n : Nat) (h : n = a.toNat) : UInt8.ofNat n = a := by
  subst h; exact UInt8.ofNat_toNat

/-- **base64 round trip**: decoding the encoding of *any* byte string gives the byte string back — every length,
    every byte value (NUL, invalid UTF-8, …). -/
theorem b64_roundtrip : ∀ (bs : List UInt8), decode (encode bs) = some bs
  | [] => by simp [encode, decode]
  | [a] => by
    have ha : a.toNat < 256 := UInt8.toNat_lt a
    have h1 : a.toNat / 4 < 64 := by omega
    have h2 : a.toNat % 4 * 16 < 64 := by omega
    simp only [encode, decode, beq_self_eq_true, List.isEmpty_nil, Bool.and_self, ite_true,
      dec6_enc6' _ h1, dec6_enc6' _ h2, bind, Option.bind, pure]
    congr 2
    apply u8_ofNat_toNat; omega
  | [a, b] => by
    have ha : a.toNat < 256 := UInt8.toNat_lt a
    have hb : b.toNat < 256 := UInt8.toNat_lt b
    have h1 : a.toNat / 4 < 64 := by omega
    have h2 : a.toNat % 4 * 16 + b.toNat / 16 < 64 := by omega
    have h3 : b.toNat % 16 * 4 < 64 := by omega
    simp only [encode, decode, beq_self_eq_true, List.isEmpty_nil, Bool.and_true, enc6_ne_pad' _ h3,
      Bool.false_and, Bool.false_eq_true, ite_false, ite_true, dec6_enc6' _ h1, dec6_enc6' _ h2, dec6_enc6' _ h3,
      bind, Option.bind, pure]
    congr 2
    · apply u8_ofNat_toNat; omega
    · congr 1; apply u8_ofNat_toNat; omega
  | a :: b :: c :: rest => by
    have ha : a.toNat < 256 := UInt8.toNat_lt a
    have hb : b.toNat < 256 := UInt8.toNat_lt b
    have hc : c.toNat < 256 := UInt8.toNat_lt c
    have h1 : a.toNat / 4 < 64 := by omega
    have h2 : a.toNat % 4 * 16 + b.toNat / 16 < 64 := by omega
    have h3 : b.toNat % 16 * 4 + c.toNat / 64 < 64 := by omega
    have h4 : c.toNat % 64 < 64 := by omega
    have ih := b64_roundtrip rest
    simp only [encode, decode, enc6_ne_pad' _ h3, enc6_ne_pad' _ h4, Bool.false_and, Bool.false_eq_true, ite_false,
      dec6_enc6' _ h1, dec6_enc6' _ h2, dec6_enc6' _ h3, dec6_enc6' _ h4, ih, bind, Option.bind, pure]
    congr 2
    · apply u8_ofNat_toNat; omega
    · congr 1
      · apply u8_ofNat_toNat; omega
      · congr 1; apply u8_ofNat_toNat; omega

/-- the encoding has length 4·⌈n/3⌉ -/
theorem encode_length : ∀ (bs : List UInt8), (encode bs).length = (bs.length + 2) / 3 * 4
  | [] => by simp [encode]
  | [_] => by simp [encode]
  | [_, _] => by simp [encode]
  | _ :: _ :: _ :: rest => by simp only [encode, List.length_cons, encode_length rest]; omega

/-! test vectors (RFC 4648 §10) — labelled tests -/
#guard encodeStr "foobar".toUTF8.toList == "Zm9vYmFy" && encodeStr "fo".toUTF8.toList == "Zm8=" && encodeStr "f".toUTF8.toList == "Zg=="
#guard decodeStr "Zm9vYg==" == some "foob".toUTF8.toList && decodeStr "Zg=" == none && decodeStr "Z===" == none

end Hk.Base64

namespace Hk.Fidelity
open Hk.Route (canonHeader)

theorem put_keys (m : List (String × String)) (k v : String) (p : String × String) (hp : p ∈ put m k v) :
    p ∈ m ∨ p = (k, v) := by
  unfold put at hp
  split at hp
  · obtain ⟨q, hq, rfl⟩ := List.mem_map.mp hp
    split
    · right; rfl
    · left; exact hq
  · rcases List.mem_append.mp hp with h | h
    · left; exact h
    · right; simpa using h

theorem foldl_put_origin (f : (String × List String) → String × String) :
    ∀ (l : List (String × List String)) (acc : List (String × String)) (p : String × String),
      p ∈ l.foldl (fun acc x => put acc (f x).1 (f x).2) acc → p ∈ acc ∨ ∃ x ∈ l, p = f x := by
  intro l
  induction l with
  | nil => intro acc p h; left; simpa using h
  | cons x xs ih =>
    intro acc p h
    simp only [List.foldl_cons] at h
    rcases ih _ p h with h | ⟨y, hy, rfl⟩
    · rcases put_keys acc _ _ p h with h | h
      · left; exact h
      · right; exact ⟨x, by simp, by rw [h]⟩
    · right; exact ⟨y, by simp [hy], rfl⟩

/-- **Authorization, Proxy-Authorization and Cookie are never persisted** (any letter case): with no forward-auth
    extras, every stored header stems from a received header whose name is none of the three, and it is stored under
    the canonical form of that name with the received values comma-joined — nothing else is stored. -/
theorem stored_headers_origin (h : List (String × List String)) (maxBytes : Nat) (out : List (String × String))
    (hc : copyHeaders h maxBytes [] = some out) (p : String × String) (hp : p ∈ out) :
    ∃ k vs, (k, vs) ∈ h ∧ sensitive k = false ∧ p = (canonHeader k, joinComma vs) := by
  unfold copyHeaders at hc
  split at hc
  · split at hc
    · cases hc; simp at hp
    · cases hc
  · unfold finish withExtras at hc
    simp only [List.foldl_nil] at hc
    by_cases hsz : size (base h) > maxBytes
    · simp [hsz] at hc
    · simp only [hsz, ite_false, Option.some.injEq] at hc
      subst hc
      unfold base at hp
      have := foldl_put_origin (fun x => (canonHeader x.1, joinComma x.2)) _ [] p hp
      rcases this with h0 | ⟨x, hx, rfl⟩
      · simp at h0
      · have hx' := List.mem_filter.mp hx
        exact ⟨x.1, x.2, hx'.1, by simpa using hx'.2, rfl⟩

/-- what is stored never exceeds `max_headers` bytes -/
theorem stored_headers_within_limit (h : List (String × List String)) (maxBytes : Nat) (extra) (out : List (String × String))
    (hpos : maxBytes ≠ 0) (hc : copyHeaders h maxBytes extra = some out) : size out ≤ maxBytes := by
  unfold copyHeaders at hc
  have : (maxBytes == 0) = false := by simpa using hpos
  simp only [this, Bool.false_eq_true, ite_false] at hc
  unfold finish at hc
  by_cases hsz : size (withExtras (base h) extra) > maxBytes
  · simp [hsz] at hc
  · simp only [hsz, ite_false, Option.some.injEq] at hc
    subst hc; omega

example : copyHeaders [("Authorization", ["Bearer x"]), ("X-A", ["1", "2"]), ("COOKIE", ["c"]), ("x-b", ["v"])] 100 [] =
    some [("X-A", "1,2"), ("X-B", "v")] := by decide

end Hk.Fidelity
