import HkModel.Model.IngressAuth
import Mathlib.Tactic.Linarith
/-! C08 — ingress authentication is sound and fails closed; C09 — replay protection. Property theorems. -/
namespace Hk.IngressAuth
open Hk.Egress (trimWS)

variable (mac : Bytes → Bytes → Bytes)

/-- **HMAC acceptance is sound** (for every keyed function `mac`): an accepted request carried all three headers,
    a decimal timestamp within the tolerance, a nonce not seen in its window, and a non-empty hex signature equal
    to `mac secret (ts ⏎ method ⏎ path ⏎ hex sha256 body)` for a non-empty secret valid *at the signed timestamp*. -/
theorem hmac_accept_sound (cfg : HmacCfg) (now : Int) (cache : Cache) (rq : HReq)
    (h : (verify mac cfg now cache rq).2 = true) :
    trimWS rq.sig ≠ "" ∧ trimWS rq.ts ≠ "" ∧ trimWS rq.nonce ≠ "" ∧
    ∃ n, parseInt64 (trimWS rq.ts) = some n ∧
      (cfg.tol > 0 → -cfg.tol ≤ now - n * 1000000000 ∧ now - n * 1000000000 ≤ cfg.tol) ∧
      (seenOnce cache now (trimWS rq.nonce) (n * 1000000000 + cfg.tol)).2 = true ∧
      ∃ g s, Sha256.fromHex (trimWS rq.sig) = some g ∧ g ≠ [] ∧ s ∈ validSecrets cfg (n * 1000000000) ∧ s ≠ [] ∧
        mac s (stringToSign (trimWS rq.ts) rq.method rq.path rq.body) = g := by
  unfold verify at h
  cases ht : timeOK cfg now rq with
  | none => simp [ht] at h
  | some t =>
    simp only [ht] at h
    unfold timeOK at ht
    split at ht
    · cases ht
    · rename_i hhdr
      simp only [Bool.or_eq_true, beq_iff_eq, not_or] at hhdr
      cases hp : parseInt64 (trimWS rq.ts) with
      | none => simp [hp] at ht
      | some n =>
        simp only [hp] at ht
        split at ht
        · cases ht
        · rename_i htol
          cases ht
          refine ⟨hhdr.1.1, hhdr.1.2, hhdr.2, n, rfl, ?_, ?_, ?_⟩
          · intro hpos
            simp only [Bool.and_eq_true, decide_eq_true_eq, Bool.or_eq_true, not_and, not_or, not_lt] at htol
            have := htol hpos
            omega
          · cases hs : seenOnce cache now (trimWS rq.nonce) (n * 1000000000 + cfg.tol) with
            | mk c' fresh =>
              simp only [hs] at h
              cases fresh with
              | false => simp at h
              | true => rfl
          · cases hs : seenOnce cache now (trimWS rq.nonce) (n * 1000000000 + cfg.tol) with
            | mk c' fresh =>
              simp only [hs] at h
              cases fresh with
              | false => simp at h
              | true =>
                simp only [Bool.not_true, Bool.false_eq_true, ite_false] at h
                unfold sigOK at h
                cases hg : Sha256.fromHex (trimWS rq.sig) with
                | none => simp [hg] at h
                | some g =>
                  simp only [hg, Bool.and_eq_true, Bool.not_eq_true', List.any_eq_true, beq_iff_eq] at h
                  obtain ⟨hne, s, hs1, hs2, hs3⟩ := h
                  refine ⟨g, s, rfl, ?_, hs1, ?_, hs3⟩
                  · intro hnil; simp [hnil] at hne
                  · intro hnil; simp [hnil] at hs2

/-- **Fails closed**: any single missing condition rejects. -/
theorem hmac_reject_missing_header (cfg : HmacCfg) (now : Int) (cache : Cache) (rq : HReq)
    (h : trimWS rq.sig = "" ∨ trimWS rq.ts = "" ∨ trimWS rq.nonce = "") :
    (verify mac cfg now cache rq).2 = false := by
  cases hv : (verify mac cfg now cache rq).2 with
  | false => rfl
  | true =>
    have := hmac_accept_sound mac cfg now cache rq hv
    rcases h with h | h | h
    · exact absurd h this.1
    · exact absurd h this.2.1
    · exact absurd h this.2.2.1

theorem hmac_reject_outside_tolerance (cfg : HmacCfg) (now : Int) (cache : Cache) (rq : HReq) (n : Int)
    (hp : parseInt64 (trimWS rq.ts) = some n) (htol : cfg.tol > 0)
    (hout : now - n * 1000000000 < -cfg.tol ∨ cfg.tol < now - n * 1000000000) :
    (verify mac cfg now cache rq).2 = false := by
  cases hv : (verify mac cfg now cache rq).2 with
  | false => rfl
  | true =>
    obtain ⟨_, _, _, n', hp', hb, _⟩ := hmac_accept_sound mac cfg now cache rq hv
    rw [hp] at hp'; cases hp'
    have := hb htol; omega

/-- a secret that is not valid at the signed timestamp never authenticates a request (rotation) -/
theorem hmac_reject_out_of_window_secret (cfg : HmacCfg) (now : Int) (cache : Cache) (rq : HReq) (n : Int)
    (hp : parseInt64 (trimWS rq.ts) = some n)
    (hnone : ∀ s ∈ validSecrets cfg (n * 1000000000), s ≠ [] →
      some (mac s (stringToSign (trimWS rq.ts) rq.method rq.path rq.body)) ≠ Sha256.fromHex (trimWS rq.sig)) :
    (verify mac cfg now cache rq).2 = false := by
  cases hv : (verify mac cfg now cache rq).2 with
  | false => rfl
  | true =>
    obtain ⟨_, _, _, n', hp', _, _, g, s, hg, _, hs, hsne, hm⟩ := hmac_accept_sound mac cfg now cache rq hv
    rw [hp] at hp'; cases hp'
    exact absurd (by rw [hg, hm]) (hnone s hs hsne)

/-- inbound verification accepts exactly the versions valid at the signed timestamp (C17, inbound half) -/
theorem validSecrets_versions (cfg : HmacCfg) (t : Int) (s : Bytes) (hv : cfg.versions ≠ []) :
    s ∈ validSecrets cfg t ↔ (∃ v ∈ cfg.versions, v.validAt t = true ∧ v.value = s) ∨ s ∈ cfg.direct := by
  unfold validSecrets
  have : cfg.versions.isEmpty = false := by cases h : cfg.versions <;> simp_all
  simp only [this, Bool.false_eq_true, ite_false, List.mem_append, List.mem_map, List.mem_filter]
  constructor
  · rintro (⟨v, ⟨hv1, hv2⟩, rfl⟩ | h)
    · exact Or.inl ⟨v, hv1, hv2, rfl⟩
    · exact Or.inr h
  · rintro (⟨v, hv1, hv2, rfl⟩ | h)
    · exact Or.inl ⟨v, ⟨hv1, hv2⟩, rfl⟩
    · exact Or.inr h

theorem window_boundaries (v : Version) (u : Int) (hu : v.until_ = some u) (hlt : v.from_ < u) :
    v.validAt v.from_ = true ∧ v.validAt u = false ∧ v.validAt (v.from_ - 1) = false ∧ v.validAt (u - 1) = true := by
  simp only [Version.validAt, hu, Bool.and_eq_true, decide_eq_true_eq, Bool.and_eq_false_iff, decide_eq_false_iff_not]
  omega

/-- Basic: a configured user with exactly its password -/
theorem basic_sound (users : List (String × String)) (cred) (h : basicVerify users cred = true) :
    ∃ u p, cred = some (u, p) ∧ (u, p) ∈ users := by
  unfold basicVerify at h
  cases cred with
  | none => simp at h
  | some c =>
    obtain ⟨u, p⟩ := c
    simp only at h
    cases hf : users.find? (·.1 == u) with
    | none => simp [hf] at h
    | some e =>
      obtain ⟨u', want⟩ := e
      simp only [hf, beq_iff_eq] at h
      have hm := List.mem_of_find?_eq_some hf
      have hu : u' = u := by have := List.find?_some hf; simpa using this
      exact ⟨u, p, rfl, by rw [h, ← hu]; exact hm⟩

/-- forward auth: 2xx allows; 401/403 are passed on; every other status and every failure answers 503 -/
theorem forward_table (o : FwdOutcome) :
    forwardDecide o = match o with
      | .status n => if 200 ≤ n ∧ n < 300 then 0 else if n = 401 ∨ n = 403 then n else 503
      | .failed => 503 := by
  cases o with
  | failed => rfl
  | status n =>
    simp only [forwardDecide, Bool.and_eq_true, decide_eq_true_eq, Bool.or_eq_true, beq_iff_eq]

theorem forward_allow_iff_2xx (o : FwdOutcome) : forwardDecide o = 0 ↔ ∃ n, o = .status n ∧ 200 ≤ n ∧ n < 300 := by
  cases o with
  | failed => simp [forwardDecide]
  | status n =>
    simp only [forwardDecide, Bool.and_eq_true, decide_eq_true_eq, Bool.or_eq_true, beq_iff_eq,
      FwdOutcome.status.injEq, exists_eq_left']
    split_ifs with h1 h2
    · simp [h1]
    · constructor
      · intro h; rcases h2 with h2 | h2 <;> omega
      · intro h; exact absurd h h1
    · simp only [Nat.reduceEqDiff, false_iff]; exact h1

theorem fwdStatus_values (i : FlowIn) :
    fwdStatus i = 0 ∨ fwdStatus i = 401 ∨ fwdStatus i = 403 ∨ fwdStatus i = 503 := by
  unfold fwdStatus
  cases i.forward with
  | none => simp
  | some o =>
    cases o with
    | failed => simp [forwardDecide]
    | status n =>
      simp only [forwardDecide, Bool.and_eq_true, decide_eq_true_eq, Bool.or_eq_true, beq_iff_eq]
      split_ifs with h1 h2
      · simp
      · rcases h2 with h2 | h2 <;> simp [h2]
      · simp

/-- **Any authentication failure precedes the enqueue**: 401 / 403 / 413 / 429 / 404 / 405 leave the queue
    untouched (503 keeps only the copies stored for earlier targets of a fan-out; see `fwd_fail_no_enqueue`). -/
theorem deny_precedes_enqueue (i : FlowIn) (h : (flow i).1 ≠ 202 ∧ (flow i).1 ≠ 503) : (flow i).2 = 0 := by
  unfold flow at *
  split_ifs at * <;> try rfl
  cases hf : failIdx i with
  | none => simp [hf] at h
  | some k => simp [hf] at h

/-- the auth service failing or answering anything but 2xx/401/403 answers 503 and enqueues nothing -/
theorem fwd_fail_no_enqueue (i : FlowIn) (hpre : i.routed = true ∧ i.rateOK = true ∧ i.pressureOK = true ∧
    i.basic ≠ some false ∧ i.bodyOK = true) (hf : fwdStatus i ≠ 0) : flow i = (fwdStatus i, 0) := by
  obtain ⟨h1, h2, h3, h4, h5⟩ := hpre
  unfold flow
  have h4' : (i.basic == some false) = false := by
    cases hb : i.basic with
    | none => rfl
    | some b => cases b with
      | false => exact absurd hb h4
      | true => rfl
  simp [h1, h2, h3, h4', h5, hf]

/-- **Declared authentication is enforced**: a 202 means every authenticator the route declares accepted. -/
theorem declared_auth_enforced (i : FlowIn) (h : (flow i).1 = 202) :
    i.routed = true ∧ i.basic ≠ some false ∧ i.hmac ≠ some false ∧ fwdStatus i = 0 ∧
    i.bodyOK = true ∧ i.headersOK = true ∧ (flow i).2 = i.targets := by
  have hv := fwdStatus_values i
  unfold flow at *
  split_ifs at * with h1 h0 h2 h3 h4 h5 h6 h7 h8
  all_goals (try (simp at h; done))
  · rcases hv with hv | hv | hv | hv <;> simp_all
  · cases hf : failIdx i with
    | some k => simp [hf] at h
    | none =>
      simp only [hf]
      refine ⟨by simpa using h1, ?_, ?_, by simpa using h6, by simpa using h5, by simpa using h8, trivial⟩
      · intro hb; simp [hb] at h4
      · intro hb; simp [hb] at h7

/-! ## C09 — replay protection -/

/-- Key invariant step: after `seenOnce` the nonce is cached with an expiry that is still live. -/
theorem seenOnce_records (cache : Cache) (now : Int) (nonce : String) (exp : Int) (hlive : now ≤ exp) :
    ∃ e ∈ (seenOnce cache now nonce exp).1, e.1 = nonce ∧ now ≤ e.2 := by
  unfold seenOnce
  simp only
  split
  · rename_i h
    obtain ⟨e, he, hn⟩ := List.any_eq_true.mp h
    have := (List.mem_filter.mp he).2
    exact ⟨e, he, by simpa using hn, by simpa using this⟩
  · exact ⟨(nonce, exp), by simp, rfl, hlive⟩

/-- a cached, still-live nonce makes `seenOnce` answer "seen" — *including* at `now = expiry` -/
theorem seenOnce_rejects_live (cache : Cache) (now : Int) (nonce : String) (exp : Int)
    (h : ∃ e ∈ cache, e.1 = nonce ∧ now ≤ e.2) : (seenOnce cache now nonce exp).2 = false := by
  obtain ⟨e, he, hn, hl⟩ := h
  unfold seenOnce
  have : (cache.filter (fun e => decide (now ≤ e.2))).any (·.1 == nonce) = true :=
    List.any_eq_true.mpr ⟨e, List.mem_filter.mpr ⟨he, by simpa using hl⟩, by simpa using hn⟩
  simp [this]

/-- entries survive later calls for as long as they are live -/
theorem seenOnce_keeps_live (cache : Cache) (now : Int) (nonce : String) (exp : Int) (e : String × Int)
    (he : e ∈ cache) (hl : now ≤ e.2) : e ∈ (seenOnce cache now nonce exp).1 := by
  unfold seenOnce
  simp only
  have hm : e ∈ cache.filter (fun e => decide (now ≤ e.2)) := List.mem_filter.mpr ⟨he, by simpa using hl⟩
  split
  · exact hm
  · exact List.mem_cons_of_mem _ hm

/-- one event on a route's authenticator: a request arriving at `now`; the authenticator (and its cache) is kept
    across configuration reloads, so a reload is not an event that changes the cache -/
structure Ev where
  now : Int
  rq : HReq

def runVerify (mac : Bytes → Bytes → Bytes) (cfg : HmacCfg) : Cache → List Ev → List (Ev × Bool)
  | _, [] => []
  | c, e :: rest => let (c', ok) := verify mac cfg e.now c e.rq; (e, ok) :: runVerify mac cfg c' rest

def MonoEv : Int → List Ev → Prop
  | _, [] => True
  | t, e :: rest => t ≤ e.now ∧ MonoEv e.now rest

theorem verify_keeps_live (cfg : HmacCfg) (now : Int) (cache : Cache) (rq : HReq) (e : String × Int)
    (he : e ∈ cache) (hl : now ≤ e.2) : e ∈ (verify mac cfg now cache rq).1 := by
  unfold verify
  split
  · exact he
  · rename_i t _
    have := seenOnce_keeps_live cache now (trimWS rq.nonce) (t + cfg.tol) e he hl
    cases hs : seenOnce cache now (trimWS rq.nonce) (t + cfg.tol) with
    | mk c' fresh =>
      rw [hs] at this
      simp only
      split <;> exact this

/-- **A nonce is honoured at most once while its timestamp passes the tolerance check.** In any history of
    requests with a monotone clock: once a request with nonce `N` and signed time `t` has been accepted, every later
    request carrying `N` that arrives while `now ≤ t + tol` — i.e. for as long as the original's timestamp itself
    would still pass — is rejected, whatever happens in between. Stated on the cache invariant: -/
theorem replay_rejected_while_live (cfg : HmacCfg) (htol : 0 < cfg.tol) :
    ∀ (evs : List Ev) (cache : Cache) (t0 : Int) (nonce : String) (exp : Int),
      MonoEv t0 evs → (∃ e ∈ cache, e.1 = nonce ∧ e.2 = exp) →
      ∀ p ∈ runVerify mac cfg cache evs, trimWS p.1.rq.nonce = nonce → p.1.now ≤ exp → p.2 = false := by
  intro evs
  induction evs with
  | nil => intro _ _ _ _ _ _ p hp; simp [runVerify] at hp
  | cons e rest ih =>
    intro cache t0 nonce exp hmono hc p hp hn hle
    simp only [runVerify] at hp
    cases hv : verify mac cfg e.now cache e.rq with
    | mk c' ok =>
      simp only [hv, List.mem_cons] at hp
      obtain ⟨en, hen, hen1, hen2⟩ := hc
      rcases hp with rfl | hp
      · -- this very request: the nonce is cached and live ⇒ rejected
        simp only at hn hle ⊢
        have : (verify mac cfg e.now cache e.rq).2 = false := by
          unfold verify
          split
          · rfl
          · rename_i t _
            have hr := seenOnce_rejects_live cache e.now (trimWS e.rq.nonce) (t + cfg.tol)
              ⟨en, hen, by rw [hen1, hn], by rw [hen2]; exact hle⟩
            cases hs : seenOnce cache e.now (trimWS e.rq.nonce) (t + cfg.tol) with
            | mk c'' fresh =>
              rw [hs] at hr
              simp only at hr
              simp [hr]
        rw [hv] at this; exact this
      · -- later request: the entry is still in the cache as long as it is live
        by_cases hlive : e.now ≤ exp
        · have hk := verify_keeps_live mac cfg e.now cache e.rq en hen (by rw [hen2]; exact hlive)
          rw [hv] at hk
          exact ih c' e.now nonce exp hmono.2 ⟨en, hk, hen1, hen2⟩ p hp hn hle
        · -- the window is over for good (clock is monotone): nothing to show for later arrivals ≤ exp
          have hm : ∀ (l : List Ev) (c : Cache) (t : Int), MonoEv t l → ∀ q ∈ runVerify mac cfg c l, t ≤ q.1.now := by
            intro l
            induction l with
            | nil => intro _ _ _ q hq; simp [runVerify] at hq
            | cons x xs ihx =>
              intro c t hmx q hq
              simp only [runVerify] at hq
              cases hvx : verify mac cfg x.now c x.rq with
              | mk cx okx =>
                simp only [hvx, List.mem_cons] at hq
                rcases hq with rfl | hq
                · exact hmx.1
                · have := ihx cx x.now hmx.2 q hq; have := hmx.1; omega
          have := hm rest c' e.now hmono.2 p hp
          omega

/-- and an accepted request *does* put its nonce in the cache with expiry `t + tol ≥ now` -/
theorem accepted_is_recorded (cfg : HmacCfg) (now : Int) (cache : Cache) (rq : HReq) (htol : 0 < cfg.tol)
    (h : (verify mac cfg now cache rq).2 = true) :
    ∃ e ∈ (verify mac cfg now cache rq).1, e.1 = trimWS rq.nonce ∧ now ≤ e.2 := by
  unfold verify at h ⊢
  cases ht : timeOK cfg now rq with
  | none => simp [ht] at h
  | some t =>
    simp only [ht] at h ⊢
    -- from `timeOK = some t`: now ≤ t + tol
    have hle : now ≤ t + cfg.tol := by
      unfold timeOK at ht
      split at ht
      · cases ht
      · cases hp : parseInt64 (trimWS rq.ts) with
        | none => simp [hp] at ht
        | some n =>
          simp only [hp] at ht
          split at ht
          · cases ht
          · rename_i hc
            cases ht
            simp only [Bool.and_eq_true, decide_eq_true_eq, Bool.or_eq_true, not_and, not_or, not_lt] at hc
            have := hc htol
            omega
    have hrec := seenOnce_records cache now (trimWS rq.nonce) (t + cfg.tol) hle
    cases hs : seenOnce cache now (trimWS rq.nonce) (t + cfg.tol) with
    | mk c' fresh =>
      rw [hs] at hrec
      simp only
      split <;> exact hrec

/-! ### the pinned tree accepts a replay at the boundary instant (witness) -/
theorem pinned_boundary_replay_accepts :
    (seenOncePinned [("n1", 2010)] 2010 "n1" 2010).2 = true ∧ (seenOnce [("n1", 2010)] 2010 "n1" 2010).2 = false := by
  decide

/-! ### non-vacuity -/
example : parseInt64 "1700000000" = some 1700000000 ∧ parseInt64 "+5" = some 5 ∧ parseInt64 "1_0" = none ∧
    parseInt64 "" = none ∧ parseInt64 "9223372036854775808" = none := by decide
example : flow { routed := true, hmac := some true, targets := 2 } = (202, 2) ∧
    flow { routed := true, hmac := some false, targets := 2 } = (401, 0) ∧
    flow { routed := true, forward := some (.status 403) } = (403, 0) ∧
    flow { routed := true, forward := some (.status 302) } = (503, 0) ∧
    flow { routed := true, targets := 3, storeFailsAt := some 1 } = (503, 1) := by decide

end Hk.IngressAuth
