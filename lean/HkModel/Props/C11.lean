import HkModel.Model.ApiAuth
/-! C11 — Pull, Worker and Admin APIs act only for authorized callers. Property theorems. -/
namespace Hk.ApiAuth
open Hk.Egress (trimWS)

/-- **HTTP authorization is sound**: with a non-empty allowlist, an authorized request carried `Bearer ` (exact
    case) followed by a token that *equals* an allowed token (after trimming surrounding white space) — so a
    proper prefix, suffix or case variant of a token, or another route's token, is never enough. -/
theorem authorize_sound (tokens : List String) (hdr : String) (hne : usable tokens ≠ [])
    (h : bearerHTTP tokens hdr = true) :
    startsWith hdr "Bearer " = true ∧
    trimWS (String.ofList (hdr.toList.drop 7)) ∈ tokens ∧ trimWS (String.ofList (hdr.toList.drop 7)) ≠ "" := by
  unfold bearerHTTP at h
  have he : (usable tokens).isEmpty = false := by cases hu : usable tokens <;> simp_all
  simp only [he, Bool.false_eq_true, ite_false] at h
  split at h
  · cases h
  · split at h
    · cases h
    · rename_i hp
      simp only [Bool.and_eq_true, bne_iff_ne, ne_eq, List.contains_eq_mem, decide_eq_true_eq] at h
      refine ⟨by simpa using hp, ?_, h.1⟩
      have := h.2
      unfold usable at this
      exact (List.mem_filter.mp this).1

theorem no_header_rejected (tokens : List String) (hne : usable tokens ≠ []) : bearerHTTP tokens "" = false := by
  unfold bearerHTTP
  have he : (usable tokens).isEmpty = false := by cases hu : usable tokens <;> simp_all
  simp [he]

/-- gRPC: some metadata value parses as `Bearer <token>` (scheme case-insensitive) with an allowed token -/
theorem authorize_sound_grpc (tokens : List String) (values : List String) (hne : usable tokens ≠ [])
    (h : bearerGRPC tokens values = true) :
    ∃ raw ∈ values, ∃ t, parseBearerGRPC raw = some t ∧ t ∈ tokens ∧ t ≠ "" := by
  unfold bearerGRPC at h
  have he : (usable tokens).isEmpty = false := by cases hu : usable tokens <;> simp_all
  simp only [he, Bool.false_eq_true, ite_false, List.any_eq_true] at h
  obtain ⟨raw, hr, hm⟩ := h
  split at hm
  · rename_i t hp
    have hm' : t ∈ usable tokens := by simpa using hm
    unfold usable at hm'
    have := List.mem_filter.mp hm'
    exact ⟨raw, hr, t, hp, this.1, by simpa using this.2⟩
  · cases hm

/-- no metadata, no access -/
theorem no_metadata_rejected (tokens : List String) (hne : usable tokens ≠ []) : bearerGRPC tokens [] = false := by
  unfold bearerGRPC
  have he : (usable tokens).isEmpty = false := by cases hu : usable tokens <;> simp_all
  simp [he]

/-- **Route override replaces the global list**: a route that declares its own tokens is governed by them alone. -/
theorem override_replaces (global : List String) (routes : List PullRoute) (r : PullRoute)
    (hr : routes.find? (·.endpoint == r.endpoint) = some r) (ht : r.tokens ≠ []) :
    effective global routes r.endpoint = r.tokens := by
  unfold effective
  rw [hr]
  have : r.tokens.isEmpty = false := by cases h : r.tokens <;> simp_all
  simp [this]

theorem global_only_token_rejected_on_override (global : List String) (routes : List PullRoute) (r : PullRoute)
    (hr : routes.find? (·.endpoint == r.endpoint) = some r) (ht : usable r.tokens ≠ []) (hdr : String)
    (hnot : trimWS (String.ofList (hdr.toList.drop 7)) ∉ r.tokens) :
    authorizePull global routes r.endpoint hdr = false := by
  unfold authorizePull
  have hne : r.tokens ≠ [] := by intro h; simp [h, usable] at ht
  rw [override_replaces global routes r hr hne]
  cases hb : bearerHTTP r.tokens hdr with
  | false => rfl
  | true => exact absurd (authorize_sound r.tokens hdr ht hb).2.1 hnot

/-- **A compiled configuration never leaves a pull route open**: if the compile condition holds, every pull
    route's effective allowlist is non-empty, hence a request without a valid token is refused there. -/
theorem compiled_never_open (global : List String) (routes : List PullRoute) (hc : compileOK global routes = true)
    (r : PullRoute) (hr : r ∈ routes) : authorizePull global routes r.endpoint "" = false := by
  unfold compileOK at hc
  have := List.all_eq_true.mp hc r hr
  simp only [Bool.not_eq_true', List.isEmpty_eq_false_iff] at this
  unfold authorizePull
  exact no_header_rejected _ this

/-! ### non-vacuity -/
example : bearerHTTP ["tok", "t2"] "Bearer tok" = true ∧ bearerHTTP ["tok"] "Bearer to" = false ∧
    bearerHTTP ["tok"] "Bearer tokx" = false ∧ bearerHTTP ["tok"] "bearer tok" = false ∧
    bearerHTTP ["tok"] "Bearer TOK" = false ∧ bearerHTTP ["tok"] "Bearer  tok " = true ∧ bearerHTTP ["tok"] "Bearer " = false := by
  decide
example : bearerGRPC ["tok"] ["Basic x", "bEaReR tok"] = true ∧ bearerGRPC ["tok"] ["Bearer"] = false := by decide
example : authorizePull ["g"] [{ route := "/a", endpoint := "/pull/a", tokens := ["ra"] }] "/pull/a" "Bearer g" = false ∧
    authorizePull ["g"] [{ route := "/a", endpoint := "/pull/a", tokens := ["ra"] }] "/pull/a" "Bearer ra" = true := by decide

end Hk.ApiAuth
