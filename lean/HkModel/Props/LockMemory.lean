/-
Critical sections of the in-memory store (internal/queue/memory.go), over regenerated facts: the sequential queue theorems
(C02–C05, C12, C14, C15) are about histories of whole store methods; this is the syntactic half of `each method is atomic`.
-/
import HkModel.Props.LockScopes

namespace Hk.LockScopes
open Hk.Gen.Locks

/-- every method of the in-memory store is one critical section under the write lock; only `Dequeue` re-acquires, once per
    pass of its long poll -/
theorem memory_store_methods_are_single_critical_sections :
    fileOK "internal/queue/memory.go"
      ["MemoryStore.Enqueue", "MemoryStore.EnqueueBatch", "MemoryStore.Dequeue", "MemoryStore.Ack", "MemoryStore.AckBatch",
       "MemoryStore.Nack", "MemoryStore.NackBatch", "MemoryStore.Extend", "MemoryStore.MarkDead", "MemoryStore.MarkDeadBatch",
       "MemoryStore.CancelMessages", "MemoryStore.CancelMessagesByFilter", "MemoryStore.RequeueMessages",
       "MemoryStore.RequeueMessagesByFilter", "MemoryStore.ResumeMessages", "MemoryStore.ResumeMessagesByFilter",
       "MemoryStore.RequeueDead", "MemoryStore.DeleteDead"]
      ["MemoryStore.Dequeue"] = true := by decide +kernel

example : 20 ≤ (inFile "internal/queue/memory.go").length := by decide +kernel

end Hk.LockScopes
