import HkModel.Model.Crash
import HkModel.Generated.CrashOrder
/-!
  C01 — crash durability.  Property theorems.

  Route: (A) the event fold over a crash prefix of `progs` is the fold of an abstract request semantics `applyReq`
  over the completed requests plus one *partial* request (`recover_char`); (B) for such a store every clause of
  `crashCheck` follows from `wellFormed` (`crash_safe`).
-/
namespace Hk.Crash

/-! ## generic list facts -/

theorem eraseDups_length_le {α} [BEq α] : ∀ (n : Nat) (l : List α), l.length ≤ n → l.eraseDups.length ≤ l.length
  | _, [], _ => by simp
  | 0, _ :: _, h => by simp at h
  | n+1, a :: as, h => by
    rw [List.eraseDups_cons]
    simp only [List.length_cons] at h ⊢
    have h1 := List.length_filter_le (fun b => !b == a) as
    have := eraseDups_length_le n (as.filter fun b => !b == a) (by omega)
    omega

theorem nodup_of_eraseDups {α} [BEq α] [LawfulBEq α] :
    ∀ (n : Nat) (l : List α), l.length ≤ n → l.eraseDups.length = l.length → l.Nodup
  | _, [], _, _ => List.nodup_nil
  | 0, _ :: _, h, _ => by simp at h
  | n+1, a :: as, h, he => by
    rw [List.eraseDups_cons] at he
    simp only [List.length_cons] at he h
    have h1 := List.length_filter_le (fun b => !b == a) as
    have h2 := eraseDups_length_le _ (as.filter fun b => !b == a) (Nat.le_refl _)
    have hf : (as.filter fun b => !b == a).length = as.length := by omega
    have hfe : as.filter (fun b => !b == a) = as := List.filter_eq_self.2 (List.length_filter_eq_length_iff.1 hf)
    rw [hfe] at he
    refine List.nodup_cons.2 ⟨?_, nodup_of_eraseDups n as (by omega) (by omega)⟩
    intro hmem
    have := (List.filter_eq_self.1 hfe) a hmem
    simp at this

theorem nodup_of_eraseDups_beq {α} [BEq α] [LawfulBEq α] (l : List α) (h : (l.eraseDups.length == l.length) = true) :
    l.Nodup := nodup_of_eraseDups l.length l (Nat.le_refl _) (by simpa using h)

/-! ## abstract request semantics -/

def kt (m : CMsg) : String × String := (m.key, m.target)

def setF (key target : String) (st : CSt) (m : CMsg) : CMsg :=
  if m.key == key && m.target == target then { m with st := st } else m

def applyReq (ms : List CMsg) : CReq → List CMsg
  | .ingress body targets => ms ++ targets.map fun t => ⟨body, t, .queued⟩
  | .publish ids target => ms ++ ids.map fun id => ⟨id, target, .queued⟩
  | .leaseOp k key target => ms.map (setF key target k.result)

def run (S : List CReq) : List CMsg := S.foldl applyReq []

def progBody : CReq → List Ev
  | .ingress body targets => targets.flatMap fun t => [.begin, .put ⟨body, t, .queued⟩, .commit]
  | .publish ids target => [.begin] ++ ids.map (fun id => .put ⟨id, target, .queued⟩) ++ [.commit]
  | .leaseOp k key target => [.begin, .setSt key target k.result, .commit]

theorem prog_eq (i : Nat) (r : CReq) : prog i r = progBody r ++ [.respond i] := by
  cases r <;> simp [prog, progBody]

/-- the request that stores nothing -/
def nothing : CReq := .ingress "" []

@[simp] theorem applyReq_nothing (ms : List CMsg) : applyReq ms nothing = ms := by simp [applyReq, nothing]

/-- `r'` is what a crash inside the handling of `r` can leave committed -/
def Sub (r' r : CReq) : Prop :=
  r' = r ∨ ∃ body ts ts', r = .ingress body (ts ++ ts') ∧ r' = .ingress body ts

/-! ## (A) the event fold -/

theorem fold_ingress (body : String) : ∀ (targets : List String) (ms : List CMsg),
    (targets.flatMap fun t => [Ev.begin, .put ⟨body, t, .queued⟩, .commit]).foldl stepEv ⟨ms, none⟩
      = ⟨ms ++ targets.map fun t => ⟨body, t, .queued⟩, none⟩
  | [], ms => by simp
  | t :: ts, ms => by
    simp only [List.flatMap_cons, List.foldl_append, List.map_cons]
    have : List.foldl stepEv ⟨ms, none⟩ [Ev.begin, .put ⟨body, t, .queued⟩, .commit] = ⟨ms ++ [⟨body, t, .queued⟩], none⟩ := rfl
    rw [this, fold_ingress body ts]
    simp

theorem fold_ingress_take (body : String) : ∀ (targets : List String) (ms : List CMsg) (j : Nat),
    ∃ n, (((targets.flatMap fun t => [Ev.begin, .put ⟨body, t, .queued⟩, .commit]).take j).foldl stepEv ⟨ms, none⟩).committed
      = ms ++ (targets.take n).map fun t => ⟨body, t, .queued⟩
  | [], ms, j => ⟨0, by simp⟩
  | t :: ts, ms, 0 => ⟨0, by simp⟩
  | t :: ts, ms, 1 => ⟨0, by simp [stepEv]⟩
  | t :: ts, ms, 2 => ⟨0, by simp [stepEv]⟩
  | t :: ts, ms, j+3 => by
    obtain ⟨n, hn⟩ := fold_ingress_take body ts (ms ++ [⟨body, t, .queued⟩]) j
    refine ⟨n+1, ?_⟩
    simp only [List.flatMap_cons, List.cons_append, List.nil_append, List.take_succ_cons, List.foldl_cons]
    have : stepEv (stepEv (stepEv ⟨ms, none⟩ Ev.begin) (.put ⟨body, t, .queued⟩)) .commit = ⟨ms ++ [⟨body, t, .queued⟩], none⟩ := rfl
    rw [this, hn]
    simp

theorem fold_puts (ms : List CMsg) : ∀ (l : List CMsg) (buf : List Ev),
    (l.map Ev.put).foldl stepEv ⟨ms, some buf⟩ = ⟨ms, some (buf ++ l.map Ev.put)⟩
  | [], buf => by simp
  | m :: l, buf => by
    simp only [List.map_cons, List.foldl_cons]
    have : stepEv ⟨ms, some buf⟩ (.put m) = ⟨ms, some (buf ++ [.put m])⟩ := rfl
    rw [this, fold_puts ms l]
    simp

theorem applyWrite_puts : ∀ (l : List CMsg) (ms : List CMsg), (l.map Ev.put).foldl applyWrite ms = ms ++ l
  | [], ms => by simp
  | m :: l, ms => by
    simp only [List.map_cons, List.foldl_cons]
    have : applyWrite ms (.put m) = ms ++ [m] := rfl
    rw [this, applyWrite_puts l]
    simp

theorem fold_publish (ids : List String) (target : String) (ms : List CMsg) :
    (progBody (.publish ids target)).foldl stepEv ⟨ms, none⟩ = ⟨applyReq ms (.publish ids target), none⟩ := by
  have hmap : ids.map (fun id => Ev.put ⟨id, target, .queued⟩) = (ids.map fun id => (⟨id, target, .queued⟩ : CMsg)).map Ev.put := by
    simp
  simp only [progBody, List.foldl_append, List.foldl_cons, List.foldl_nil]
  have : stepEv ⟨ms, none⟩ Ev.begin = ⟨ms, some []⟩ := rfl
  rw [this, hmap, fold_puts]
  simp only [stepEv, List.nil_append, applyWrite_puts, applyReq]

theorem fold_publish_take (ids : List String) (target : String) (ms : List CMsg) (j : Nat) :
    (((progBody (.publish ids target)).take j).foldl stepEv ⟨ms, none⟩).committed = ms ∨
    (((progBody (.publish ids target)).take j).foldl stepEv ⟨ms, none⟩).committed = applyReq ms (.publish ids target) := by
  by_cases hj : j ≤ ids.length + 1
  · left
    cases j with
    | zero => simp
    | succ j =>
      have hmap : ids.map (fun id => Ev.put ⟨id, target, .queued⟩) = (ids.map fun id => (⟨id, target, .queued⟩ : CMsg)).map Ev.put := by
        simp
      have htake : (progBody (.publish ids target)).take (j+1)
          = Ev.begin :: ((ids.take j).map fun id => (⟨id, target, .queued⟩ : CMsg)).map Ev.put := by
        simp only [progBody, List.cons_append, List.nil_append, List.take_succ_cons]
        rw [List.take_append]
        have h0 : j - (List.map (fun id => Ev.put ⟨id, target, .queued⟩) ids).length = 0 := by
          simp only [List.length_map]; omega
        rw [h0]; simp [List.map_take, Function.comp_def]
      rw [htake, List.foldl_cons]
      have : stepEv ⟨ms, none⟩ Ev.begin = ⟨ms, some []⟩ := rfl
      rw [this, fold_puts]
  · right
    rw [List.take_of_length_le (by simp [progBody]; omega), fold_publish]

theorem fold_lease_take (k : LeaseKind) (key target : String) (ms : List CMsg) (j : Nat) :
    (((progBody (.leaseOp k key target)).take j).foldl stepEv ⟨ms, none⟩).committed = ms ∨
    (((progBody (.leaseOp k key target)).take j).foldl stepEv ⟨ms, none⟩).committed = applyReq ms (.leaseOp k key target) := by
  match j with
  | 0 => left; rfl
  | 1 => left; rfl
  | 2 => left; rfl
  | j+3 =>
    right
    have : (progBody (.leaseOp k key target)).take (j+3) = progBody (.leaseOp k key target) := by simp [progBody]
    rw [this]; rfl

theorem fold_body (r : CReq) (ms : List CMsg) :
    (progBody r).foldl stepEv ⟨ms, none⟩ = ⟨applyReq ms r, none⟩ := by
  cases r with
  | ingress body targets => exact fold_ingress body targets ms
  | publish ids target => exact fold_publish ids target ms
  | leaseOp k key target => rfl

theorem fold_prog (i : Nat) (r : CReq) (ms : List CMsg) :
    (prog i r).foldl stepEv ⟨ms, none⟩ = ⟨applyReq ms r, none⟩ := by
  rw [prog_eq, List.foldl_append, fold_body]; rfl

theorem fold_progs : ∀ (l : List CReq) (start : Nat) (ms : List CMsg),
    (progs start l).foldl stepEv ⟨ms, none⟩ = ⟨l.foldl applyReq ms, none⟩
  | [], _, _ => rfl
  | r :: l, start, ms => by
    simp only [progs, List.foldl_append, fold_prog, List.foldl_cons, fold_progs l]

/-- a crash inside the handling of `r` leaves `nothing` or a `Sub`-request of `r` committed -/
theorem fold_body_take (r : CReq) (ms : List CMsg) (j : Nat) :
    ∃ r', (r' = nothing ∨ Sub r' r) ∧ (((progBody r).take j).foldl stepEv ⟨ms, none⟩).committed = applyReq ms r' := by
  cases r with
  | ingress body targets =>
    obtain ⟨n, hn⟩ := fold_ingress_take body targets ms j
    refine ⟨.ingress body (targets.take n), Or.inr (Or.inr ⟨body, targets.take n, targets.drop n, by simp, rfl⟩), ?_⟩
    simpa [progBody, applyReq] using hn
  | publish ids target =>
    rcases fold_publish_take ids target ms j with h | h
    · exact ⟨nothing, Or.inl rfl, by simpa using h⟩
    · exact ⟨_, Or.inr (Or.inl rfl), h⟩
  | leaseOp k key target =>
    rcases fold_lease_take k key target ms j with h | h
    · exact ⟨nothing, Or.inl rfl, by simpa using h⟩
    · exact ⟨_, Or.inr (Or.inl rfl), h⟩

/-- a crash prefix of the history = some completed requests, then a prefix of the next request's events before its
    response (or the whole history) -/
theorem take_progs : ∀ (script : List CReq) (start k : Nat),
    (progs start script).take k = progs start script ∨
    ∃ done r rest j, script = done ++ r :: rest ∧ (progs start script).take k = progs start done ++ (progBody r).take j
  | [], _, _ => Or.inl (by simp [progs])
  | r :: rest, start, k => by
    by_cases hk : k ≤ (progBody r).length
    · right
      refine ⟨[], r, rest, k, rfl, ?_⟩
      simp only [progs, prog_eq, List.nil_append, List.append_assoc]
      rw [List.take_append, show k - (progBody r).length = 0 by omega]
      simp
    · have hlen : (prog start r).length ≤ k := by simp [prog_eq]; omega
      rcases take_progs rest (start+1) (k - (prog start r).length) with h | ⟨done, r2, rest2, j, hs, h⟩
      · left
        simp only [progs]
        rw [List.take_append, h, List.take_of_length_le hlen]
      · right
        refine ⟨r :: done, r2, rest2, j, by simp [hs], ?_⟩
        simp only [progs]
        rw [List.take_append, h, List.take_of_length_le hlen, List.append_assoc]

theorem respond_not_mem_body (i : Nat) (r : CReq) : Ev.respond i ∉ progBody r := by
  cases r <;> simp [progBody]

theorem respond_mem_progs : ∀ (l : List CReq) (start i : Nat), Ev.respond i ∈ progs start l → start ≤ i ∧ i < start + l.length
  | [], _, _, h => by simp [progs] at h
  | r :: l, start, i, h => by
    simp only [progs, prog_eq, List.mem_append, List.mem_singleton] at h
    rcases h with (h | h) | h
    · exact absurd h (respond_not_mem_body i r)
    · cases h; simp
    · have := respond_mem_progs l (start+1) i h
      simp only [List.length_cons]; omega

theorem acked_iff (evs : List Ev) (i : Nat) : acked evs i = true ↔ Ev.respond i ∈ evs := by
  simp [acked]

/-- what a crash can leave of the not yet completed part `rest` of the history -/
def Partial (r' : CReq) (rest : List CReq) : Prop := r' = nothing ∨ ∃ r rest', rest = r :: rest' ∧ Sub r' r

theorem run_snoc (S : List CReq) (r : CReq) : run (S ++ [r]) = applyReq (run S) r := by
  simp [run, List.foldl_append]

/-- **Characterisation of recovery**: after a crash at any point `k` the reopened store is the abstract semantics of
    the completed requests `done` plus a partial request, and only requests in `done` were acknowledged. -/
theorem recover_char (script : List CReq) (k : Nat) :
    ∃ done rest r', script = done ++ rest ∧ Partial r' rest ∧
      recover ((progs 0 script).take k) = run (done ++ [r']) ∧
      ∀ i, acked ((progs 0 script).take k) i = true → i < done.length := by
  rcases take_progs script 0 k with h | ⟨done, r, rest, j, hs, h⟩
  · refine ⟨script, [], nothing, by simp, Or.inl rfl, ?_, ?_⟩
    · rw [h, run_snoc, applyReq_nothing]
      show (List.foldl stepEv ⟨[], none⟩ (progs 0 script)).committed = _
      rw [fold_progs]; rfl
    · intro i hi
      rw [h, acked_iff] at hi
      have := respond_mem_progs script 0 i hi
      omega
  · obtain ⟨r', hsub, hr'⟩ := fold_body_take r (done.foldl applyReq []) j
    refine ⟨done, r :: rest, r', hs, ?_, ?_, ?_⟩
    · rcases hsub with h1 | h1
      · exact Or.inl h1
      · exact Or.inr ⟨r, rest, rfl, h1⟩
    · rw [h, run_snoc]
      show (List.foldl stepEv ⟨[], none⟩ (progs 0 done ++ _)).committed = _
      rw [List.foldl_append, fold_progs, hr']; rfl
    · intro i hi
      rw [h, acked_iff, List.mem_append] at hi
      rcases hi with hi | hi
      · have := respond_mem_progs done 0 i hi
        omega
      · exact absurd (List.mem_of_mem_take hi) (respond_not_mem_body i r)

/-! ## (B) static facts about `run` -/

theorem rev_ind {α} {P : List α → Prop} (nil : P []) (snoc : ∀ l a, P l → P (l ++ [a])) (l : List α) : P l := by
  have : ∀ l : List α, P l.reverse := by
    intro l
    induction l with
    | nil => exact nil
    | cons a l ih => rw [List.reverse_cons]; exact snoc _ _ ih
  simpa using this l.reverse

def keysAll (S : List CReq) : List (String × String) := S.flatMap keysOf

@[simp] theorem keysAll_nil : keysAll [] = [] := rfl
@[simp] theorem keysAll_cons (r : CReq) (S : List CReq) : keysAll (r :: S) = keysOf r ++ keysAll S := by
  simp [keysAll]
@[simp] theorem keysAll_append (A B : List CReq) : keysAll (A ++ B) = keysAll A ++ keysAll B := by
  simp [keysAll]

theorem mem_keysAll {x : String × String} {S : List CReq} : x ∈ keysAll S ↔ ∃ r ∈ S, x ∈ keysOf r := by
  simp [keysAll, List.mem_flatMap]

theorem kt_setF (key target : String) (st : CSt) (m : CMsg) : kt (setF key target st m) = kt m := by
  unfold setF; split <;> rfl

theorem applyReq_kt (ms : List CMsg) (r : CReq) : (applyReq ms r).map kt = ms.map kt ++ keysOf r := by
  cases r with
  | leaseOp k key target => simp [applyReq, keysOf, Function.comp_def, kt_setF]
  | _ => simp [applyReq, keysOf, kt, Function.comp_def]

theorem run_kt (S : List CReq) : (run S).map kt = keysAll S := by
  induction S using rev_ind with
  | nil => rfl
  | snoc S r ih => rw [run_snoc, applyReq_kt, ih]; simp

theorem count_eq (after : List CMsg) (key target : String) :
    count after key target = (after.map kt).count (key, target) := by
  induction after with
  | nil => rfl
  | cons m ms ih =>
    simp only [count, List.filter_cons, List.map_cons, List.count_cons] at ih ⊢
    by_cases h : (m.key == key && m.target == target) = true
    · have : (kt m == (key, target)) = true := by simpa [kt] using h
      simp [h, this, ih]
    · have : ¬ (kt m == (key, target)) = true := by simpa [kt] using h
      simp [h, this, ih]

theorem count_le_one (S : List CReq) (hnd : (keysAll S).Nodup) (key target : String) :
    count (run S) key target ≤ 1 := by
  rw [count_eq, run_kt]; exact List.nodup_iff_count.1 hnd _

theorem count_one (S : List CReq) (hnd : (keysAll S).Nodup) (key target : String) (hx : (key, target) ∈ keysAll S) :
    count (run S) key target = 1 := by
  rw [count_eq, run_kt, hnd.count, if_pos hx]

theorem count_zero (S : List CReq) (key target : String) (hx : (key, target) ∉ keysAll S) :
    count (run S) key target = 0 := by
  rw [count_eq, run_kt]; exact List.count_eq_zero.2 hx

/-! ### what `wellFormed` gives -/

theorem wf_nodup : ∀ (script : List CReq) (seen : List (String × String)), wellFormedFrom seen script = true →
    (keysAll script).Nodup ∧ ∀ x ∈ keysAll script, x ∉ seen
  | [], _, _ => by simp
  | r :: rest, seen, h => by
    simp only [wellFormedFrom, Bool.and_eq_true] at h
    obtain ⟨hr, hrest⟩ := h
    obtain ⟨ih1, ih2⟩ := wf_nodup rest _ hrest
    have hk : (keysOf r).Nodup ∧ ∀ x ∈ keysOf r, x ∉ seen := by
      cases r with
      | leaseOp => simp [keysOf]
      | ingress body targets =>
        simp only [Bool.and_eq_true, List.all_eq_true] at hr
        exact ⟨nodup_of_eraseDups_beq _ hr.2, fun x hx => by simpa using hr.1 x hx⟩
      | publish ids target =>
        simp only [Bool.and_eq_true, List.all_eq_true] at hr
        exact ⟨nodup_of_eraseDups_beq _ hr.2, fun x hx => by simpa using hr.1 x hx⟩
    rw [keysAll_cons]
    refine ⟨List.nodup_append.2 ⟨hk.1, ih1, ?_⟩, ?_⟩
    · intro a ha b hb hab
      subst hab
      exact ih2 a hb (List.mem_append_right _ ha)
    · intro x hx
      rcases List.mem_append.1 hx with hx | hx
      · exact hk.2 x hx
      · exact fun hs => ih2 x hx (List.mem_append_left _ hs)

theorem wf_lease : ∀ (A : List CReq) (seen : List (String × String)) (k : LeaseKind) (key target : String) (B : List CReq),
    wellFormedFrom seen (A ++ .leaseOp k key target :: B) = true → (key, target) ∈ seen ++ keysAll A
  | [], seen, k, key, target, B, h => by
    simp only [List.nil_append, wellFormedFrom, Bool.and_eq_true] at h
    simpa using h.1
  | r :: A, seen, k, key, target, B, h => by
    simp only [List.cons_append, wellFormedFrom, Bool.and_eq_true] at h
    have := wf_lease A _ _ _ _ _ h.2
    simpa [List.append_assoc] using this

theorem leaseKeys_append (A B : List CReq) : leaseKeys (A ++ B) = leaseKeys A ++ leaseKeys B := by
  simp [leaseKeys]

theorem mem_leaseKeys (L : List CReq) (k : LeaseKind) (key target : String) (h : CReq.leaseOp k key target ∈ L) :
    (key, target) ∈ leaseKeys L := by
  simp only [leaseKeys, List.mem_filterMap]
  exact ⟨_, h, rfl⟩

/-- a lease operation is the only one for its message -/
theorem lease_unique (A B : List CReq) (k : LeaseKind) (key target : String)
    (h : (leaseKeys (A ++ .leaseOp k key target :: B)).Nodup) (k' : LeaseKind) : CReq.leaseOp k' key target ∉ B := by
  intro hm
  have hB := mem_leaseKeys B k' key target hm
  rw [leaseKeys_append] at h
  have h2 := (List.nodup_append.1 h).2.1
  have : leaseKeys (.leaseOp k key target :: B) = (key, target) :: leaseKeys B := by simp [leaseKeys]
  rw [this] at h2
  exact (List.nodup_cons.1 h2).1 hB

/-! ### states -/

theorem run_state (S : List CReq) : ∀ m ∈ run S,
    m.st = .queued ∨ ∃ k, CReq.leaseOp k m.key m.target ∈ S ∧ m.st = k.result := by
  induction S using rev_ind with
  | nil => intro m hm; simp [run] at hm
  | snoc S r ih =>
    intro m hm
    rw [run_snoc] at hm
    have lift : (m.st = .queued ∨ ∃ k, CReq.leaseOp k m.key m.target ∈ S ∧ m.st = k.result) →
        (m.st = .queued ∨ ∃ k, CReq.leaseOp k m.key m.target ∈ S ++ [r] ∧ m.st = k.result) := by
      rintro (h | ⟨k, h1, h2⟩)
      · exact Or.inl h
      · exact Or.inr ⟨k, List.mem_append_left _ h1, h2⟩
    cases r with
    | ingress body targets =>
      simp only [applyReq, List.mem_append, List.mem_map] at hm
      rcases hm with hm | ⟨t, _, rfl⟩
      · exact lift (ih m hm)
      · exact Or.inl rfl
    | publish ids target =>
      simp only [applyReq, List.mem_append, List.mem_map] at hm
      rcases hm with hm | ⟨t, _, rfl⟩
      · exact lift (ih m hm)
      · exact Or.inl rfl
    | leaseOp k key target =>
      simp only [applyReq, List.mem_map] at hm
      obtain ⟨m0, hm0, hm⟩ := hm
      by_cases hmatch : (m0.key == key && m0.target == target) = true
      · have e : m = { m0 with st := k.result } := by rw [← hm]; unfold setF; rw [if_pos hmatch]
        simp only [Bool.and_eq_true, beq_iff_eq] at hmatch
        right
        refine ⟨k, ?_, by rw [e]⟩
        rw [e]
        simp [hmatch.1, hmatch.2]
      · have e : m = m0 := by rw [← hm]; unfold setF; rw [if_neg hmatch]
        rw [e]
        rw [e] at lift
        exact lift (ih m0 hm0)

theorem stOf_cons (m : CMsg) (ms : List CMsg) (key target : String) :
    stOf (m :: ms) key target = if (m.key == key && m.target == target) = true then some m.st else stOf ms key target := by
  simp only [stOf, List.find?_cons]
  split <;> simp_all

theorem stOf_append_of_some (ms new : List CMsg) (key target : String) (st : CSt)
    (h : stOf ms key target = some st) : stOf (ms ++ new) key target = some st := by
  induction ms with
  | nil => simp [stOf] at h
  | cons m ms ih =>
    rw [List.cons_append, stOf_cons]
    rw [stOf_cons] at h
    split
    · rename_i hm; rw [if_pos hm] at h; exact h
    · rename_i hm; rw [if_neg hm] at h; exact ih h

theorem stOf_setF_ne (key target key' target' : String) (st' : CSt) (hne : (key', target') ≠ (key, target)) :
    ∀ ms : List CMsg, stOf (ms.map (setF key' target' st')) key target = stOf ms key target
  | [] => rfl
  | m :: ms => by
    rw [List.map_cons, stOf_cons, stOf_cons, stOf_setF_ne key target key' target' st' hne ms]
    by_cases hm' : (m.key == key' && m.target == target') = true
    · have hm : ¬ (m.key == key && m.target == target) = true := by
        simp only [Bool.and_eq_true, beq_iff_eq] at hm' ⊢
        rintro ⟨h1, h2⟩
        exact hne (by rw [← hm'.1, ← hm'.2, h1, h2])
      have e : setF key' target' st' m = { m with st := st' } := by unfold setF; rw [if_pos hm']
      rw [e]
      simp only [if_neg hm]
    · have e : setF key' target' st' m = m := by unfold setF; rw [if_neg hm']
      rw [e]

theorem stOf_setF_eq (key target : String) (st' : CSt) :
    ∀ ms : List CMsg, (key, target) ∈ ms.map kt → stOf (ms.map (setF key target st')) key target = some st'
  | [], h => by simp at h
  | m :: ms, h => by
    rw [List.map_cons, stOf_cons]
    by_cases hm : (m.key == key && m.target == target) = true
    · have e : setF key target st' m = { m with st := st' } := by unfold setF; rw [if_pos hm]
      rw [e]
      simp only [if_pos hm]
    · have e : setF key target st' m = m := by unfold setF; rw [if_neg hm]
      rw [e, if_neg hm]
      apply stOf_setF_eq key target st' ms
      rcases List.mem_cons.1 h with h | h
      · exfalso; apply hm
        have : m.key = key ∧ m.target = target := by
          simp only [kt, Prod.mk.injEq] at h; exact ⟨h.1.symm, h.2.symm⟩
        simp [this.1, this.2]
      · exact h

/-- an applied lease operation that is the only one for its message determines the message's final state -/
theorem lease_final (A : List CReq) (k : LeaseKind) (key target : String) (hA : (key, target) ∈ keysAll A) (B : List CReq) :
    (∀ k', CReq.leaseOp k' key target ∉ B) → stOf (run (A ++ .leaseOp k key target :: B)) key target = some k.result := by
  induction B using rev_ind with
  | nil =>
    intro _
    rw [run_snoc]
    exact stOf_setF_eq key target _ _ (by rw [run_kt]; exact hA)
  | snoc B r ih =>
    intro hB
    have ih' := ih (fun k' hm => hB k' (List.mem_append_left _ hm))
    have e : A ++ CReq.leaseOp k key target :: (B ++ [r]) = (A ++ CReq.leaseOp k key target :: B) ++ [r] := by simp
    rw [e, run_snoc]
    cases r with
    | ingress body targets => exact stOf_append_of_some _ _ _ _ _ ih'
    | publish ids target' => exact stOf_append_of_some _ _ _ _ _ ih'
    | leaseOp k' key' target' =>
      simp only [applyReq]
      rw [stOf_setF_ne _ _ _ _ _ ?_ _]
      · exact ih'
      · intro heq
        simp only [Prod.mk.injEq] at heq
        exact hB k' (by simp [heq.1, heq.2])

/-! ### partial requests -/

theorem sub_keys {r' r : CReq} (h : Sub r' r) : ∀ x ∈ keysOf r', x ∈ keysOf r := by
  rcases h with rfl | ⟨body, ts, ts', rfl, rfl⟩
  · exact fun _ h => h
  · intro x hx
    simp only [keysOf, List.mem_map, List.mem_append] at hx ⊢
    obtain ⟨t, ht, rfl⟩ := hx
    exact ⟨t, Or.inl ht, rfl⟩

theorem partial_keys {r' : CReq} {rest : List CReq} (hp : Partial r' rest) : keysOf r' <+: keysAll rest := by
  rcases hp with rfl | ⟨r, rest', rfl, rfl | ⟨body, ts, ts', rfl, rfl⟩⟩
  · exact List.nil_prefix
  · rw [keysAll_cons]; exact List.prefix_append _ _
  · exact ⟨ts'.map (body, ·) ++ keysAll rest', by simp [keysOf]⟩

theorem partial_lease {r' : CReq} {rest : List CReq} (hp : Partial r' rest) (k : LeaseKind) (key target : String)
    (h : r' = .leaseOp k key target) : ∃ rest', rest = .leaseOp k key target :: rest' := by
  rcases hp with rfl | ⟨r, rest', rfl, rfl | ⟨body, ts, ts', rfl, rfl⟩⟩
  · simp [nothing] at h
  · exact ⟨rest', by rw [h]⟩
  · simp at h

theorem partial_sublist {r' : CReq} {done rest : List CReq} (hp : Partial r' rest) :
    (keysAll (done ++ [r'])).Sublist (keysAll (done ++ rest)) := by
  rw [keysAll_append, keysAll_append]
  apply List.IsPrefix.sublist
  rw [List.prefix_append_right_inj]
  simpa using partial_keys hp

theorem pub_split (done rest : List CReq) (r' : CReq) (ids : List String) (target : String) (hp : Partial r' rest)
    (hnd : (keysAll (done ++ rest)).Nodup) (hmem : CReq.publish ids target ∈ done ++ rest) :
    CReq.publish ids target ∈ done ++ [r'] ∨ ∀ x ∈ keysOf (.publish ids target), x ∉ keysAll (done ++ [r']) := by
  rcases List.mem_append.1 hmem with h | h
  · exact Or.inl (List.mem_append_left _ h)
  · rcases hp with rfl | ⟨r, rest', rfl, hsub⟩
    · right
      intro x hx hx'
      have hx' : x ∈ keysAll done := by simpa [nothing, keysOf] using hx'
      rw [keysAll_append] at hnd
      exact (List.nodup_append.1 hnd).2.2 x hx' x (mem_keysAll.2 ⟨_, h, hx⟩) rfl
    · rcases List.mem_cons.1 h with h | h
      · rcases hsub with rfl | ⟨body, ts, ts', hr, _⟩
        · left; rw [h]; simp
        · rw [hr] at h; cases h
      · right
        intro x hx hx'
        have h1 : x ∈ keysAll done ++ keysOf r := by
          rw [keysAll_append] at hx'
          rcases List.mem_append.1 hx' with h' | h'
          · exact List.mem_append_left _ h'
          · exact List.mem_append_right _ (sub_keys hsub x (by simpa using h'))
        rw [keysAll_append, keysAll_cons, ← List.append_assoc] at hnd
        exact (List.nodup_append.1 hnd).2.2 x h1 x (mem_keysAll.2 ⟨_, h, hx⟩) rfl

/-! ## the clauses of the property, as propositions -/

structure Clauses (script : List CReq) (ack : Nat → Bool) (after : List CMsg) : Prop where
  ingress_acked : ∀ (i : Nat) body targets, script[i]? = some (CReq.ingress body targets) → ack i = true →
    ∀ t ∈ targets, count after body t = 1
  no_dup : ∀ key target, count after key target ≤ 1
  publish_acked : ∀ (i : Nat) ids target, script[i]? = some (CReq.publish ids target) → ack i = true →
    ∀ id ∈ ids, count after id target = 1
  publish_atomic : ∀ (i : Nat) ids target, script[i]? = some (CReq.publish ids target) →
    (∀ id ∈ ids, count after id target = 0) ∨ (∀ id ∈ ids, count after id target = 1)
  explained : ∀ m ∈ after, ∃ r ∈ script, kt m ∈ keysOf r
  state : ∀ m ∈ after, m.st = .queued ∨ ∃ k, CReq.leaseOp k m.key m.target ∈ script ∧ m.st = k.result
  lease_acked : ∀ (i : Nat) k key target, script[i]? = some (CReq.leaseOp k key target) → ack i = true →
    stOf after key target = some k.result

theorem getElem?_done {done rest : List CReq} {i : Nat} {r : CReq} (h : (done ++ rest)[i]? = some r) (hi : i < done.length) :
    done[i]? = some r := by
  rwa [List.getElem?_append_left hi] at h

/-- every clause holds for (completed requests + partial request), given well-formedness of the whole script -/
theorem clauses_static (done rest : List CReq) (r' : CReq) (ack : Nat → Bool) (hp : Partial r' rest)
    (hwf : wellFormed (done ++ rest) = true) (hack : ∀ i, ack i = true → i < done.length) :
    Clauses (done ++ rest) ack (run (done ++ [r'])) := by
  simp only [wellFormed, Bool.and_eq_true] at hwf
  obtain ⟨hwf1, hwf2⟩ := hwf
  have hnd : (keysAll (done ++ rest)).Nodup := (wf_nodup _ _ hwf1).1
  have hlk : (leaseKeys (done ++ rest)).Nodup := nodup_of_eraseDups_beq _ hwf2
  have hsub := partial_sublist (done := done) hp
  have hSnd : (keysAll (done ++ [r'])).Nodup := hsub.nodup hnd
  have hdone : ∀ i r, (done ++ rest)[i]? = some r → ack i = true → ∀ x ∈ keysOf r, x ∈ keysAll (done ++ [r']) := by
    intro i r hi ha x hx
    have := List.mem_of_getElem? (getElem?_done hi (hack i ha))
    exact mem_keysAll.2 ⟨r, List.mem_append_left _ this, hx⟩
  refine ⟨?_, ?_, ?_, ?_, ?_, ?_, ?_⟩
  · intro i body targets hi ha t ht
    exact count_one _ hSnd _ _ (hdone i _ hi ha (body, t) (by simp [keysOf, ht]))
  · exact count_le_one _ hSnd
  · intro i ids target hi ha id hid
    exact count_one _ hSnd _ _ (hdone i _ hi ha (id, target) (by simp [keysOf, hid]))
  · intro i ids target hi
    rcases pub_split done rest r' ids target hp hnd (List.mem_of_getElem? hi) with h | h
    · right
      intro id hid
      exact count_one _ hSnd _ _ (mem_keysAll.2 ⟨_, h, by simp [keysOf, hid]⟩)
    · left
      intro id hid
      exact count_zero _ _ _ (h (id, target) (by simp [keysOf, hid]))
  · intro m hm
    have : kt m ∈ keysAll (done ++ [r']) := by rw [← run_kt]; exact List.mem_map_of_mem hm
    exact mem_keysAll.1 (hsub.subset this)
  · intro m hm
    rcases run_state _ m hm with h | ⟨k, h1, h2⟩
    · exact Or.inl h
    · refine Or.inr ⟨k, ?_, h2⟩
      rcases List.mem_append.1 h1 with h1 | h1
      · exact List.mem_append_left _ h1
      · obtain ⟨rest', hr⟩ := partial_lease hp k m.key m.target (by simpa [eq_comm] using h1)
        rw [hr]; simp
  · intro i k key target hi ha
    have hi' := getElem?_done hi (hack i ha)
    obtain ⟨A, B, hAB⟩ := List.append_of_mem (List.mem_of_getElem? hi')
    subst hAB
    have hA : (key, target) ∈ keysAll A := by
      have := wf_lease A [] k key target (B ++ rest) (by simpa using hwf1)
      simpa using this
    have huniq := lease_unique A (B ++ rest) k key target (by simpa using hlk)
    have e : A ++ CReq.leaseOp k key target :: B ++ [r'] = A ++ CReq.leaseOp k key target :: (B ++ [r']) := by simp
    rw [e]
    apply lease_final A k key target hA
    intro k' hm
    rcases List.mem_append.1 hm with hm | hm
    · exact huniq k' (List.mem_append_left _ hm)
    · obtain ⟨rest', hr⟩ := partial_lease hp k' key target (by simpa [eq_comm] using hm)
      exact huniq k' (by rw [hr]; simp)

/-- **The clauses at every crash point of every well-formed history.** -/
theorem clauses_at_crash (script : List CReq) (hwf : wellFormed script = true) (k : Nat) :
    Clauses script (acked ((progs 0 script).take k)) (recover ((progs 0 script).take k)) := by
  obtain ⟨done, rest, r', hs, hp, hrec, hack⟩ := recover_char script k
  rw [hrec]
  subst hs
  exact clauses_static done rest r' _ hp hwf hack

/-! ## from the clauses to `crashCheck` -/

theorem mem_sentAt {script : List CReq} {evs : List Ev} {s : Sent} (h : s ∈ sentAt script evs) :
    ∃ i : Nat, script[i]? = some s.req ∧ s.acked = acked evs i := by
  simp only [sentAt, List.mem_map] at h
  obtain ⟨p, hp, rfl⟩ := h
  exact ⟨p.2, List.mem_zipIdx_iff_getElem?.1 hp, rfl⟩

theorem sentAt_of_mem {script : List CReq} (evs : List Ev) {r : CReq} (h : r ∈ script) :
    ∃ s ∈ sentAt script evs, s.req = r := by
  obtain ⟨i, hi⟩ := List.getElem?_of_mem h
  exact ⟨⟨r, acked evs i⟩, List.mem_map.2 ⟨(r, i), List.mem_zipIdx_iff_getElem?.2 hi, rfl⟩, rfl⟩

theorem explained_of_clauses (script : List CReq) (evs : List Ev) (after : List CMsg)
    (C : Clauses script (acked evs) after) : ∀ m ∈ after, explained (sentAt script evs) m = true := by
  intro m hm
  simp only [explained, List.any_eq_true]
  obtain ⟨r, hr, hk⟩ := C.explained m hm
  obtain ⟨s, hs, hsr⟩ := sentAt_of_mem evs hr
  refine ⟨s, hs, ?_⟩
  rw [hsr]
  cases r with
  | ingress body targets =>
    simp only [keysOf, kt, List.mem_map, Prod.mk.injEq] at hk
    obtain ⟨t, ht, h1, h2⟩ := hk
    simp [← h1, ← h2, ht]
  | publish ids target =>
    simp only [keysOf, kt, List.mem_map, Prod.mk.injEq] at hk
    obtain ⟨t, ht, h1, h2⟩ := hk
    simp [← h1, ← h2, ht]
  | leaseOp k key target => simp [keysOf] at hk

theorem crashCheck_of_clauses (script : List CReq) (evs : List Ev) (after : List CMsg)
    (C : Clauses script (acked evs) after) : crashCheck (sentAt script evs) after = none := by
  unfold crashCheck
  rw [if_neg, if_neg, if_neg, if_neg, if_neg, if_neg, if_neg]
  · -- acknowledged lease operation not undone
    rw [Bool.not_eq_true, List.any_eq_false]
    rintro ⟨req, a⟩ hs
    obtain ⟨i, hi, ha⟩ := mem_sentAt hs
    dsimp only at hi ha
    subst ha
    cases req with
    | leaseOp k key target =>
      dsimp only
      intro h
      simp only [Bool.and_eq_true, bne_iff_ne, ne_eq] at h
      exact h.2 (C.lease_acked i k key target hi h.1)
    | _ => simp
  · -- states explained
    rw [Bool.not_eq_true, List.any_eq_false]
    intro m hm
    simp only [Bool.not_eq_true', Bool.not_eq_false, stateAllowed, Bool.or_eq_true, beq_iff_eq, List.any_eq_true]
    rcases C.state m hm with h | ⟨k, h1, h2⟩
    · exact Or.inl h
    · obtain ⟨s, hs, hr⟩ := sentAt_of_mem evs h1
      exact Or.inr ⟨s, hs, by rw [hr]; simp [h2]⟩
  · -- nobody's message
    rw [Bool.not_eq_true, List.any_eq_false]
    intro m hm
    simp only [Bool.not_eq_true', Bool.not_eq_false]
    exact explained_of_clauses script evs after C m hm
  · -- publish batch all or nothing
    rw [Bool.not_eq_true, List.any_eq_false]
    rintro ⟨req, a⟩ hs
    obtain ⟨i, hi, ha⟩ := mem_sentAt hs
    dsimp only at hi ha
    cases req with
    | publish ids target =>
      dsimp only
      simp only [Bool.not_eq_true', Bool.not_eq_false, Bool.or_eq_true, List.all_eq_true, beq_iff_eq]
      exact C.publish_atomic i ids target hi
    | _ => simp
  · -- acknowledged publish stored
    rw [Bool.not_eq_true, List.any_eq_false]
    rintro ⟨req, a⟩ hs
    obtain ⟨i, hi, ha⟩ := mem_sentAt hs
    dsimp only at hi ha
    subst ha
    cases req with
    | publish ids target =>
      dsimp only
      intro h
      simp only [Bool.and_eq_true, List.any_eq_true, bne_iff_ne, ne_eq] at h
      obtain ⟨hack, id, hid, hne⟩ := h
      exact hne (C.publish_acked i ids target hi hack id hid)
    | _ => simp
  · -- nothing stored twice
    rw [Bool.not_eq_true, List.any_eq_false]
    rintro ⟨req, a⟩ hs
    cases req with
    | ingress body targets =>
      dsimp only
      intro h
      simp only [List.any_eq_true, decide_eq_true_eq] at h
      obtain ⟨t, _, hgt⟩ := h
      have := C.no_dup body t
      omega
    | _ => simp
  · -- acknowledged ingress stored
    rw [Bool.not_eq_true, List.any_eq_false]
    rintro ⟨req, a⟩ hs
    obtain ⟨i, hi, ha⟩ := mem_sentAt hs
    dsimp only at hi ha
    subst ha
    cases req with
    | ingress body targets =>
      dsimp only
      intro h
      simp only [Bool.and_eq_true, List.any_eq_true, bne_iff_ne, ne_eq] at h
      obtain ⟨hack, t, ht, hne⟩ := h
      exact hne (C.ingress_acked i body targets hi hack t ht)
    | _ => simp

/-- **C01 main theorem**: at every crash point `k` of every well-formed history the reopened store satisfies the
    property. -/
theorem crash_safe (script : List CReq) (hwf : wellFormed script = true) (k : Nat) :
    crashCheck (sentAt script ((progs 0 script).take k)) (recover ((progs 0 script).take k)) = none :=
  crashCheck_of_clauses _ _ _ (clauses_at_crash script hwf k)

/-! ## corollaries -/

/-- an acknowledged ingress request has exactly one stored message per target, whatever happens afterwards -/
theorem ack_durable (script : List CReq) (hwf : wellFormed script = true) (k i : Nat) (body : String) (targets : List String)
    (hi : script[i]? = some (CReq.ingress body targets)) (hresp : Ev.respond i ∈ (progs 0 script).take k) :
    ∀ t ∈ targets, count (recover ((progs 0 script).take k)) body t = 1 :=
  (clauses_at_crash script hwf k).ingress_acked i body targets hi ((acked_iff _ _).2 hresp)

/-- a publish batch is stored in full or not at all, at every crash point -/
theorem publish_atomic (script : List CReq) (hwf : wellFormed script = true) (k i : Nat) (ids : List String) (target : String)
    (hi : script[i]? = some (CReq.publish ids target)) :
    (∀ id ∈ ids, count (recover ((progs 0 script).take k)) id target = 1) ∨
    (∀ id ∈ ids, count (recover ((progs 0 script).take k)) id target = 0) :=
  ((clauses_at_crash script hwf k).publish_atomic i ids target hi).symm

/-- an acknowledged publish batch is stored in full -/
theorem publish_durable (script : List CReq) (hwf : wellFormed script = true) (k i : Nat) (ids : List String) (target : String)
    (hi : script[i]? = some (CReq.publish ids target)) (hresp : Ev.respond i ∈ (progs 0 script).take k) :
    ∀ id ∈ ids, count (recover ((progs 0 script).take k)) id target = 1 :=
  (clauses_at_crash script hwf k).publish_acked i ids target hi ((acked_iff _ _).2 hresp)

/-- nothing is ever stored twice -/
theorem no_duplicate (script : List CReq) (hwf : wellFormed script = true) (k : Nat) (key target : String) :
    count (recover ((progs 0 script).take k)) key target ≤ 1 :=
  (clauses_at_crash script hwf k).no_dup key target

/-- no message nobody sent -/
theorem no_phantom (script : List CReq) (hwf : wellFormed script = true) (k : Nat) :
    ∀ m ∈ recover ((progs 0 script).take k), explained (sentAt script ((progs 0 script).take k)) m = true :=
  explained_of_clauses _ _ _ (clauses_at_crash script hwf k)

/-- an acknowledged ack / nack / dead-letter is not undone -/
theorem lease_durable (script : List CReq) (hwf : wellFormed script = true) (k i : Nat) (op : LeaseKind) (key target : String)
    (hi : script[i]? = some (CReq.leaseOp op key target)) (hresp : Ev.respond i ∈ (progs 0 script).take k) :
    stOf (recover ((progs 0 script).take k)) key target = some op.result :=
  (clauses_at_crash script hwf k).lease_acked i op key target hi ((acked_iff _ _).2 hresp)

/-! ## the model is not vacuous -/

/-- a handler that answers 202 *before* storing: the variant the property must reject -/
def progBad (i : Nat) : CReq → List Ev
  | .ingress body targets => [.respond i] ++ (targets.flatMap fun t => [.begin, .put ⟨body, t, .queued⟩, .commit])
  | r => prog i r

def progsBad (start : Nat) : List CReq → List Ev
  | [] => []
  | r :: rest => progBad start r ++ progsBad (start + 1) rest

/-- NEGATIVE witness: respond-before-commit loses an acknowledged message at crash point 1 (and 2, 3) -/
theorem respond_before_commit_violates :
    ∃ k, crashCheck (sentAt [.ingress "r" ["a"]] ((progsBad 0 [.ingress "r" ["a"]]).take k))
      (recover ((progsBad 0 [.ingress "r" ["a"]]).take k)) ≠ none :=
  ⟨1, by decide⟩

example : crashCheck (sentAt [.ingress "r" ["a"]] ((progsBad 0 [.ingress "r" ["a"]]).take 3))
    (recover ((progsBad 0 [.ingress "r" ["a"]]).take 3)) = some "acknowledged-ingress-message-lost-or-duplicated" := by
  decide

/-- a publish handler with one transaction per item: the variant the atomicity clause must reject -/
def progSplit (i : Nat) : CReq → List Ev
  | .publish ids target => (ids.flatMap fun id => [.begin, .put ⟨id, target, .queued⟩, .commit]) ++ [.respond i]
  | r => prog i r

theorem split_publish_violates :
    crashCheck (sentAt [.publish ["x", "y"] "a"] ((progSplit 0 (.publish ["x", "y"] "a")).take 3))
      (recover ((progSplit 0 (.publish ["x", "y"] "a")).take 3)) = some "publish-batch-partially-stored" := by
  decide

/-- `wellFormed` is not an idle hypothesis: the same body sent twice to the same target is stored twice -/
example : wellFormed [.ingress "r" ["a"], .ingress "r" ["a"]] = false ∧
    crashCheck (sentAt [.ingress "r" ["a"], .ingress "r" ["a"]] (progs 0 [.ingress "r" ["a"], .ingress "r" ["a"]]))
      (recover (progs 0 [.ingress "r" ["a"], .ingress "r" ["a"]])) = some "acknowledged-ingress-message-lost-or-duplicated" := by
  decide

/-- non-vacuity: ingress fan-out, publish, ack / nack / dead-letter, empty batch, empty fan-out -/
def demo : List CReq :=
  [.ingress "r" ["a", "b"], .publish ["x", "y"] "a", .leaseOp .ack "r" "a", .leaseOp .nack "x" "a",
   .leaseOp .dead "r" "b", .publish [] "q", .ingress "z" []]

example : wellFormed demo = true := by decide
example : (progs 0 demo).length = 28 := by decide
example : ∀ k < 30, crashCheck (sentAt demo ((progs 0 demo).take k)) (recover ((progs 0 demo).take k)) = none := by
  decide
/-- the final store of the demo: four messages, two of them moved by their lease operation -/
example : recover (progs 0 demo) =
    [⟨"r", "a", .delivered⟩, ⟨"r", "b", .dead⟩, ⟨"x", "a", .queued⟩, ⟨"y", "a", .queued⟩] := by decide
/-- a crash inside the second ingress transaction: first target stored, second not, request unacknowledged -/
example : recover ((progs 0 demo).take 5) = [⟨"r", "a", .queued⟩] ∧ acked ((progs 0 demo).take 5) 0 = false := by decide

#print axioms crash_safe
#print axioms recover_char
#print axioms clauses_at_crash
#print axioms ack_durable
#print axioms publish_atomic
#print axioms publish_durable
#print axioms no_duplicate
#print axioms no_phantom
#print axioms lease_durable
#print axioms respond_before_commit_violates
#print axioms split_publish_violates

/-! ### the ordering facts the programs rest on, regenerated from the Go source on every run -/
section Extracted
open Hk.Gen

/-- `prog (.ingress …)` = one committed insert per target, then the response: the handler calls `Store.Enqueue` only inside
    one loop over the targets, a failed call leaves the handler, and its only 202 is written after that loop.
    `prog (.publish …)`: every `EnqueueBatch` failure leaves the handler before the success response.
    `commit` is durable and precedes success: WAL + synchronous=FULL, and every function opening a write transaction
    checks the result of `commitTx`. -/
theorem code_order_facts :
    ingressEnqueueLoops = 1 ∧ ingressLoopsLeavingOnError = 1 ∧ ingressEnqueueOutsideLoop = 0 ∧
    ingressAcceptedWrites = 1 ∧ ingressAcceptedAfterLoop = true ∧
    publishBatchCalls = publishBatchCallsLeavingOnError ∧ 0 < publishBatchCalls ∧
    sqliteJournalWAL = true ∧ sqliteSynchronousFull = true ∧
    sqliteTxFunctions = sqliteTxFunctionsCommitChecked ∧
    "enqueueWithLimit" ∈ sqliteTxFunctions ∧ "EnqueueBatch" ∈ sqliteTxFunctions ∧ "withLease" ∈ sqliteTxFunctions ∧
    "withLeaseBatch" ∈ sqliteTxFunctions := by decide

end Extracted

#print axioms code_order_facts

end Hk.Crash
