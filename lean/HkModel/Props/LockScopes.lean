/-
The reduction of concurrent executions to the sequential histories the theorems quantify over assumes that every decision
— a store method, a nonce look-up-and-insert, taking a token, an accessor of the runtime state, the swap of a reload — is ONE
critical section (memory, ingress, pull layer, runtime state) or ONE write transaction (SQLite). This file turns the
syntactic part of that assumption into obligations over facts regenerated from the code on every run
(`Generated/LockScopes.lean`, `Generated/SqliteTx.lean`, go/ast): how often each function acquires a lock, and which of the
store's own methods a transaction-opening SQLite method calls before and after `BEGIN IMMEDIATE`.

They are obligations about the SHAPE of the code, not about its behaviour: a change that splits a critical section breaks
one of them whether or not a harmful schedule exists; the check then looks for one (`hkharness concx`).
-/
import HkModel.Generated.LockScopes

namespace Hk.LockScopes
open Hk.Gen.Locks

abbrev Fact := String × String × List (String × String) × Bool × Bool × Nat

def Fact.name (f : Fact) : String := f.2.1
def Fact.events (f : Fact) : List (String × String) := f.2.2.1
/-- acquisitions reached: the function's own plus those of the methods of its own receiver it calls, transitively -/
def Fact.reach (f : Fact) : Nat := f.2.2.2.2.2

def acquisitions (f : Fact) : List (String × String) :=
  f.events.filter (fun e => e.1 == "Lock" || e.1 == "RLock")

def releases (f : Fact) : List (String × String) :=
  f.events.filter (fun e => e.1 == "Unlock" || e.1 == "RUnlock" || e.1 == "defer Unlock" || e.1 == "defer RUnlock")

/-- `run` holds three independent closures (reload by signal, by file watcher, by the Admin API), each of which takes
    `reloadMu` once; everything else takes a lock once -/
def several : List String := ["run"]

/-- at most one acquisition of its own — then released at least once, every lock operation naming the same lock — and
    exactly one reached in all: a method that takes the lock calls no method of its own receiver that takes it too, and a
    method that takes none itself reaches it through one call only -/
def oneSection (f : Fact) : Bool :=
  several.contains f.name ||
    (f.reach == 1 && (acquisitions f).length ≤ 1 && ((acquisitions f).length == 0 || (releases f).length ≥ 1) &&
      f.events.all (fun e => (acquisitions f).all (fun a => a.2 == e.2)))

def subset (xs ys : List String) : Bool := xs.all (fun x => ys.contains x)

def inFile (file : String) : List Fact := lockFacts.filter (fun f => f.1 == file)

/-- **every function of `file` that touches a lock is one critical section**: it acquires exactly one lock exactly once,
    helpers on its own receiver included (a function that looks a value up in one section and acts on it in another — a
    split check-then-act, directly or through a self-locking helper — reaches two acquisitions); the decisions named in
    `writers` exist and take the lock for writing; no acquisition sits in a loop or a function literal except in `loops` /
    `several` -/
def fileOK (file : String) (writers loops : List String) : Bool :=
  (inFile file).all oneSection &&
  subset writers ((inFile file).map Fact.name) &&
  ((inFile file).filter (fun f => writers.contains (Fact.name f))).all (fun f => (acquisitions f).all (fun a => a.1 == "Lock")) &&
  ((inFile file).filter (fun f => f.2.2.2.1)).map Fact.name == loops &&
  ((inFile file).filter (fun f => f.2.2.2.2.1)).all (fun f => several.contains (Fact.name f))

end Hk.LockScopes
