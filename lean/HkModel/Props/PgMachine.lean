/-
  The PostgreSQL store's statements follow the documented state machine (C02, C12, C14; C13 "and Postgres").

  PostgreSQL cannot be executed in this sandbox. Its numbered placeholders, however, make the binding between a statement and
  the `State…` constants handed to it exact, so the extractor can read, for every statement of `postgres.go` that assigns
  `state` or deletes rows of `queue_items`, the state it assigns and the states its WHERE clause admits
  (`Generated/PgTransitions.lean`, regenerated on every run). Over that table:

  * `postgres_updates_follow_the_machine` — every (from, to) pair a statement can produce is an edge of the machine of C02;
  * `postgres_unguarded_updates` — exactly one UPDATE carries no state guard of its own (`requeueLeaseTx`, which runs on a row
    the caller holds `FOR UPDATE` after having read its lease); a second one would be noticed;
  * `postgres_operator_mutations_as_documented` — cancel: queued, leased, dead; requeue: dead, canceled; resume: canceled;
    DLQ requeue / delete: dead (C14's "only from the states the operation is defined for");
  * `postgres_removals` — rows are deleted only by ack (leased), DLQ delete (dead), the retention prune (queued, delivered,
    dead — never leased) and `drop_oldest` (queued — never leased): the removal causes C02 and C12 list.
-/
import HkModel.Generated.PgTransitions

namespace Hk.PgMachine

/-- the machine of the property statement: queued→leased by dequeue; leased→queued by nack or expiry; leased→delivered by
    ack; leased→dead by dead-letter; queued|leased|dead→canceled by cancel; dead|canceled→queued by requeue / resume -/
def machine : List (String × String) :=
  [("queued", "leased"), ("leased", "queued"), ("leased", "delivered"), ("leased", "dead"),
   ("queued", "canceled"), ("leased", "canceled"), ("dead", "canceled"), ("dead", "queued"), ("canceled", "queued")]

theorem postgres_updates_follow_the_machine :
    Gen.pgUpdates.all (fun (_, to, from_) => from_.all (fun f => machine.contains (f, to))) = true := by decide

theorem postgres_unguarded_updates :
    (Gen.pgUpdates.filter (fun (_, _, from_) => from_.isEmpty)).map (fun (fn, to, _) => (fn, to)) = [("requeueLeaseTx", "queued")] := by
  decide

def fromOf (fn : String) : List (String × List String) :=
  (Gen.pgUpdates.filter (·.1 == fn)).map (fun (_, to, from_) => (to, from_))

theorem postgres_operator_mutations_as_documented :
    fromOf "CancelMessages" = [("canceled", ["queued", "leased", "dead"])] ∧
    fromOf "RequeueMessages" = [("queued", ["dead", "canceled"])] ∧
    fromOf "ResumeMessages" = [("queued", ["canceled"])] ∧
    fromOf "RequeueDead" = [("queued", ["dead"])] ∧
    (Gen.pgDeletes.filter (·.1 == "DeleteDead")).map (·.2) = [["dead"]] := by decide

theorem postgres_lease_operations_need_a_lease :
    fromOf "dequeueOnce" = [("leased", ["queued"])] ∧ fromOf "Ack" = [("delivered", ["leased"])] ∧
    fromOf "Nack" = [("queued", ["leased"])] ∧ fromOf "MarkDead" = [("dead", ["leased"])] ∧
    fromOf "requeueExpiredLeasesTx" = [("queued", ["leased"])] := by decide

theorem postgres_removals :
    Gen.pgDeletes.all (fun (fn, sts) =>
      !sts.isEmpty &&
      (if fn == "Ack" then sts == ["leased"]
       else if fn == "DeleteDead" then sts == ["dead"]
       else if fn == "dropOldestQueued" then sts == ["queued"]
       else if fn == "maybePrune" then sts.all (fun s => s == "queued" || s == "delivered" || s == "dead")
       else false)) = true := by decide

/-- non-vacuity: the tables are not empty, and an edge outside the machine would be rejected -/
example : Gen.pgUpdates.length ≥ 9 ∧ Gen.pgDeletes.length ≥ 5 := by decide
example : machine.contains ("delivered", "queued") = false ∧ machine.contains ("canceled", "leased") = false := by decide

end Hk.PgMachine
