import HkModel.Proofs.QueueInv
namespace Hk
open Hk.Obs

/-- preservation of the invariant by one step (clock not behind the last sweep, time positive) -/
theorem inv_step (c : Cfg) (now : Int) (q q' : Q) (op : Op) (ch : Choice) (r : Resp)
    (hinv : Inv q) (hclock : q.lastSweep ≤ now) (hpos : 0 ≤ now)
    (hstep : step c now q op ch = some (q', r)) : Inv q' ∧ q'.lastSweep ≤ now := by
  sorry

theorem C02_model (c : Cfg) (now : Int) (q q' : Q) (op : Op) (ch : Choice) (r : Resp)
    (hinv : Inv q) (hstep : step c now q op ch = some (q', r)) :
    C02.stepOK (modelRec c now q op r q') = true := by
  sorry

theorem C03_model (c : Cfg) (now : Int) (q q' : Q) (op : Op) (ch : Choice) (r : Resp) (h : Hist)
    (hinv : Inv q) (hh : ∀ l ∈ h.issued, l ∈ q.issued)
    (hstep : step c now q op ch = some (q', r)) :
    C03.stepOK h (modelRec c now q op r q') = true ∧
    (∀ l ∈ (C03.advance h (modelRec c now q op r q')).issued, l ∈ q'.issued) := by
  sorry

theorem C04_model (c : Cfg) (now : Int) (q q' : Q) (op : Op) (ch : Choice) (r : Resp)
    (hinv : Inv q) (hstep : step c now q op ch = some (q', r)) :
    C04.stepOK (modelRec c now q op r q') = true := by
  sorry

theorem C05_model (c : Cfg) (now : Int) (q q' : Q) (op : Op) (ch : Choice) (r : Resp)
    (hinv : Inv q) (hclock : q.lastSweep ≤ now)
    (hstep : step c now q op ch = some (q', r)) :
    C05.stepOK (modelRec c now q op r q') = true := by
  sorry

theorem C12_model (c : Cfg) (now : Int) (q q' : Q) (op : Op) (ch : Choice) (r : Resp)
    (hinv : Inv q) (hstep : step c now q op ch = some (q', r)) :
    C12.stepOK (modelRec c now q op r q') = true := by
  sorry

theorem C14_model (c : Cfg) (now : Int) (q q' : Q) (op : Op) (ch : Choice) (r : Resp)
    (hinv : Inv q) (hstep : step c now q op ch = some (q', r)) :
    C14.stepOK (modelRec c now q op r q') = true := by
  sorry

end Hk
