/-
  The memory store's scan list refines the queue model's free choice (C05: no stored message is hidden from `Dequeue`;
  C03: what the scan picks is a legal choice of the model; C13: the memory backend's order is one of the allowed ones).

  Statements are fixed here; helper lemmas may be added above each theorem.
-/
import HkModel.Model.MemOrder
import HkModel.Generated.MemOrderFacts

namespace Hk.MemOrder

/-! ### compaction -/

/-- compaction never drops the id of a stored message (any thresholds) -/
theorem compact_keeps_live (minLen factor : Nat) (order live : List String) :
    ∀ id ∈ live, id ∈ order → id ∈ compactWith minLen factor order live := by
  intro id hl ho
  unfold compactWith
  split
  · exact ho
  · split
    · rename_i h
      cases live with
      | nil => cases hl
      | cons a as => simp at h
    · split
      · exact ho
      · exact List.mem_filter.mpr ⟨ho, List.contains_iff_mem.mpr hl⟩

/-- compaction only removes entries; it keeps the relative order of what it keeps -/
theorem compact_sublist (minLen factor : Nat) (order live : List String) :
    (compactWith minLen factor order live).Sublist order := by
  unfold compactWith
  split
  · exact List.Sublist.refl _
  · split
    · exact List.nil_sublist _
    · split
      · exact List.Sublist.refl _
      · exact List.filter_sublist

/-- … and the stored ids appear in it exactly as before (same multiplicity, same order) -/
theorem compact_live_view (minLen factor : Nat) (order live : List String) :
    (compactWith minLen factor order live).filter (live.contains ·) = order.filter (live.contains ·) := by
  unfold compactWith
  split
  · rfl
  · split
    · rename_i h
      cases live with
      | nil => simp
      | cons a as => simp at h
    · split
      · rfl
      · simp [List.filter_filter]

theorem scan_full (rdy : String → Bool) (n : Nat) (l t : List String) (h : n ≤ t.length) :
    scan rdy n l t = t := by
  cases l with
  | nil => rfl
  | cons a as => simp [scan, h]

theorem scan_filter_eq (rdy : String → Bool) (n : Nat) (p : String → Bool)
    (h : ∀ id, rdy id = true → p id = true) (l t : List String) :
    scan rdy n (l.filter p) t = scan rdy n l t := by
  induction l generalizing t with
  | nil => rfl
  | cons a as ih =>
    by_cases hp : p a = true
    · rw [List.filter_cons_of_pos hp]
      simp only [scan, ih]
    · have hr : rdy a = false := by
        cases hra : rdy a with
        | false => rfl
        | true => exact absurd (h a hra) hp
      rw [List.filter_cons_of_neg hp, ih]
      by_cases hn : n ≤ t.length
      · rw [scan_full _ _ _ _ hn, scan_full _ _ _ _ hn]
      · simp [scan, hn, hr]

/-- **compaction is invisible to a scan**: for every readiness test that is false on ids without a stored message, every
    batch size and every thresholds, scanning the compacted list picks exactly what scanning the original list picks -/
theorem scan_compact_eq (rdy : String → Bool) (n minLen factor : Nat) (order live : List String)
    (h : ∀ id, rdy id = true → live.contains id = true) :
    scan rdy n (compactWith minLen factor order live) [] = scan rdy n order [] := by
  unfold compactWith
  split
  · rfl
  · split
    · rename_i hE
      have hnil : order.filter (live.contains ·) = [] := by
        cases live with
        | nil => simp
        | cons a as => simp at hE
      have := scan_filter_eq rdy n (live.contains ·) h order []
      rw [hnil] at this
      exact this
    · split
      · rfl
      · exact scan_filter_eq rdy n (live.contains ·) h order []

/-! ### every stored message stays on the list -/

/-- one operation: the ids stored afterwards are old ones or appended ones ⇒ still covered, compaction or not -/
theorem cover_step (order live live' added : List String) (compacts : Bool)
    (h : Cover order live) (hsub : ∀ id ∈ live', id ∈ live ∨ id ∈ added) :
    Cover (orderStep order added compacts live') live' := by
  have hbase : Cover (order ++ added) live' := by
    intro id hid
    rcases hsub id hid with h1 | h1
    · exact List.mem_append_left _ (h id h1)
    · exact List.mem_append_right _ h1
  unfold orderStep
  simp only
  split
  · intro id hid
    exact compact_keeps_live _ _ _ _ id hid (hbase id hid)
  · exact hbase

/-- an operation of a history, reduced to what it does to the list -/
structure OStep where
  added : List String
  compacts : Bool
  live' : List String

def runOrder : List String → List OStep → List String
  | order, [] => order
  | order, s :: ss => runOrder (orderStep order s.added s.compacts s.live') ss

def lastLive : List String → List OStep → List String
  | live, [] => live
  | _, s :: ss => lastLive s.live' ss

/-- no step stores an id that was neither stored before nor appended by that step -/
def WFrun : List String → List OStep → Prop
  | _, [] => True
  | live, s :: ss => (∀ id ∈ s.live', id ∈ live ∨ id ∈ s.added) ∧ WFrun s.live' ss

/-- **every history**: if the list covers the stored ids at the start it covers them after any number of operations, however
    often it was compacted in between -/
theorem cover_reachable (steps : List OStep) (order live : List String)
    (h : Cover order live) (hwf : WFrun live steps) :
    Cover (runOrder order steps) (lastLive live steps) := by
  induction steps generalizing order live with
  | nil => exact h
  | cons s ss ih =>
    simp only [runOrder, lastLive]
    exact ih _ _ (cover_step order live s.live' s.added s.compacts h hwf.1) hwf.2

/-! ### the scan -/

theorem scan_nodup (rdy : String → Bool) (n : Nat) (l t : List String) (ht : t.Nodup) :
    (scan rdy n l t).Nodup := by
  induction l generalizing t with
  | nil => exact ht
  | cons a as ih =>
    simp only [scan]
    split
    · exact ht
    · split
      · rename_i hc
        apply ih
        simp only [Bool.and_eq_true, Bool.not_eq_true', List.contains_eq_mem, decide_eq_false_iff_not] at hc
        rw [List.nodup_append]
        refine ⟨ht, by simp, ?_⟩
        intro x hx y hy
        simp only [List.mem_singleton] at hy
        subst hy
        intro hxy; subst hxy; exact hc.2 hx
      · exact ih _ ht

theorem scan_len (rdy : String → Bool) (n : Nat) (l t : List String) (ht : t.length ≤ n) :
    (scan rdy n l t).length ≤ n := by
  induction l generalizing t with
  | nil => exact ht
  | cons a as ih =>
    simp only [scan]
    split
    · exact ht
    · split
      · apply ih; simp; omega
      · exact ih _ ht

theorem scan_mem (rdy : String → Bool) (n : Nat) (l t : List String) :
    ∀ id ∈ scan rdy n l t, id ∈ t ∨ (rdy id = true ∧ id ∈ l) := by
  induction l generalizing t with
  | nil => intro id hid; exact Or.inl hid
  | cons a as ih =>
    intro id hid
    simp only [scan] at hid
    split at hid
    · exact Or.inl hid
    · split at hid
      · rename_i hc
        simp only [Bool.and_eq_true] at hc
        rcases ih _ id hid with h | h
        · rcases List.mem_append.mp h with h | h
          · exact Or.inl h
          · simp only [List.mem_singleton] at h
            subst h
            exact Or.inr ⟨hc.1, List.mem_cons_self⟩
        · exact Or.inr ⟨h.1, List.mem_cons_of_mem _ h.2⟩
      · rcases ih _ id hid with h | h
        · exact Or.inl h
        · exact Or.inr ⟨h.1, List.mem_cons_of_mem _ h.2⟩

/-- the result extends the accumulator by a sublist of the scanned list -/
theorem scan_ext (rdy : String → Bool) (n : Nat) (l t : List String) :
    ∃ r, scan rdy n l t = t ++ r ∧ r.Sublist l := by
  induction l generalizing t with
  | nil => exact ⟨[], by simp [scan], List.Sublist.refl _⟩
  | cons a as ih =>
    simp only [scan]
    split
    · exact ⟨[], by simp, List.nil_sublist _⟩
    · split
      · obtain ⟨r, hr, hs⟩ := ih (t ++ [a])
        exact ⟨a :: r, by rw [hr]; simp, hs.cons_cons a⟩
      · obtain ⟨r, hr, hs⟩ := ih t
        exact ⟨r, hr, hs.cons a⟩

theorem scan_acc_subset (rdy : String → Bool) (n : Nat) (l t : List String) :
    ∀ id ∈ t, id ∈ scan rdy n l t := by
  intro id hid
  obtain ⟨r, hr, _⟩ := scan_ext rdy n l t
  rw [hr]; exact List.mem_append_left _ hid

theorem scan_exh (rdy : String → Bool) (n : Nat) (l t : List String) :
    (scan rdy n l t).length < n → ∀ id ∈ l, rdy id = true → id ∈ scan rdy n l t := by
  induction l generalizing t with
  | nil => intro _ id hid; cases hid
  | cons a as ih =>
    intro hlt id hid hr
    simp only [scan] at hlt ⊢
    split
    · rename_i hn
      rw [if_pos hn] at hlt
      omega
    · rename_i hn
      rw [if_neg hn] at hlt
      split
      · rename_i hc
        rw [if_pos hc] at hlt
        rcases List.mem_cons.mp hid with h | h
        · subst h
          exact scan_acc_subset _ _ _ _ _ (by simp)
        · exact ih _ hlt id h hr
      · rename_i hc
        rw [if_neg hc] at hlt
        rcases List.mem_cons.mp hid with h | h
        · subst h
          simp only [Bool.and_eq_true, Bool.not_eq_true', hr, true_and, Bool.not_eq_false,
            List.contains_eq_mem, decide_eq_true_eq] at hc
          exact scan_acc_subset _ _ _ _ _ hc
        · exact ih _ hlt id h hr

/-- what the loop of `Dequeue` returns: distinct ids, at most `n`, each ready and on the list, in list order; and if it
    returns fewer than `n`, every ready id on the list is among them -/
theorem scan_spec (rdy : String → Bool) (n : Nat) (order : List String) :
    (scan rdy n order []).Nodup ∧ (scan rdy n order []).length ≤ n ∧
    (∀ id ∈ scan rdy n order [], rdy id = true ∧ id ∈ order) ∧
    ((scan rdy n order []).length < n → ∀ id ∈ order, rdy id = true → id ∈ scan rdy n order []) := by
  refine ⟨scan_nodup rdy n order [] List.nodup_nil, scan_len rdy n order [] (Nat.zero_le _), ?_,
    scan_exh rdy n order []⟩
  intro id hid
  rcases scan_mem rdy n order [] id hid with h | h
  · cases h
  · exact h

/-- the picks come in list order (first occurrences): FIFO by insertion -/
theorem scan_sublist (rdy : String → Bool) (n : Nat) (order : List String) :
    (scan rdy n order []).Sublist order := by
  obtain ⟨r, hr, hs⟩ := scan_ext rdy n order []
  rw [hr]; simpa using hs

theorem nodup_subset_length : ∀ (l1 l2 : List String), l1.Nodup → (∀ x ∈ l1, x ∈ l2) →
    l1.length ≤ l2.length := by
  intro l1
  induction l1 with
  | nil => intro l2 _ _; simp
  | cons a as ih =>
    intro l2 hnd hsub
    rw [List.nodup_cons] at hnd
    have ha : a ∈ l2 := hsub a List.mem_cons_self
    have h1 : as.length ≤ (l2.erase a).length := by
      apply ih _ hnd.2
      intro x hx
      have hne : x ≠ a := by intro h; subst h; exact hnd.1 hx
      exact (List.mem_erase_of_ne hne).mpr (hsub x (List.mem_cons_of_mem _ hx))
    rw [List.length_erase_of_mem ha] at h1
    have : 0 < l2.length := List.length_pos_of_mem ha
    simp only [List.length_cons]
    omega

/-- the ids of the ready messages -/
def readyIds (now : Int) (route target : String) (ms : List Msg) : List String :=
  (ms.filter (ready now route target)).map (·.id)

theorem readyIds_nodup (now : Int) (route target : String) (ms : List Msg)
    (hnd : (ms.map (·.id)).Nodup) : (readyIds now route target ms).Nodup :=
  hnd.sublist (List.filter_sublist.map _)

theorem readyId_iff (now : Int) (route target : String) (ms : List Msg) (id : String) :
    readyId now route target ms id = true ↔ id ∈ readyIds now route target ms := by
  simp only [readyId, readyIds, List.any_eq_true, Bool.and_eq_true, beq_iff_eq, List.mem_map,
    List.mem_filter]
  constructor
  · rintro ⟨m, hm, hid, hr⟩; exact ⟨m, ⟨hm, hr⟩, hid⟩
  · rintro ⟨m, ⟨hm, hr⟩, hid⟩; exact ⟨m, hm, hid, hr⟩

/-- **C05 on the memory backend**: with distinct message ids and every stored id on the list, the scan hands out exactly
    min(batch, number of ready messages) messages -/
theorem scan_count (now : Int) (route target : String) (batch : Int) (ms : List Msg) (order : List String)
    (hnd : (ms.map (·.id)).Nodup) (hc : Cover order (ms.map (·.id))) :
    (scan (readyId now route target ms) (effBatch batch) order []).length
      = min (effBatch batch) (ms.filter (ready now route target)).length := by
  have hR := readyIds_nodup now route target ms hnd
  obtain ⟨hnd', hlen, hmem, hexh⟩ := scan_spec (readyId now route target ms) (effBatch batch) order
  have h1 : (scan (readyId now route target ms) (effBatch batch) order []).length
      ≤ (readyIds now route target ms).length :=
    nodup_subset_length _ _ hnd' (fun id hid => (readyId_iff now route target ms id).mp (hmem id hid).1)
  have h2 : (scan (readyId now route target ms) (effBatch batch) order []).length < effBatch batch →
      (readyIds now route target ms).length
        ≤ (scan (readyId now route target ms) (effBatch batch) order []).length := by
    intro hlt
    apply nodup_subset_length _ _ hR
    intro id hid
    have hr : readyId now route target ms id = true := (readyId_iff now route target ms id).mpr hid
    have hin : id ∈ ms.map (·.id) := by
      simp only [readyIds, List.mem_map, List.mem_filter] at hid ⊢
      obtain ⟨m, ⟨hm, _⟩, rfl⟩ := hid
      exact ⟨m, hm, rfl⟩
    exact hexh hlt id (hc id hin) hr
  have h3 : (readyIds now route target ms).length = (ms.filter (ready now route target)).length := by
    simp [readyIds]
  rw [h3] at h1 h2
  omega

theorem nodupStr_iff' (l : List String) : nodupStr l = true ↔ l.Nodup := by
  induction l with
  | nil => simp [nodupStr]
  | cons x xs ih =>
    simp [nodupStr, ih]

/-- **refinement**: paired with fresh lease ids, the scan's picks are a legal choice of the queue model's dequeue -/
theorem scan_picks_legal (now : Int) (route target : String) (batch : Int) (q : Q) (order leases : List String)
    (hnd : (q.msgs.map (·.id)).Nodup) (hc : Cover order (q.msgs.map (·.id)))
    (hlen : leases.length = (scan (readyId now route target q.msgs) (effBatch batch) order []).length)
    (hl : leases.Nodup)
    (hfresh : ∀ l ∈ leases, l ≠ "" ∧ q.issued.contains l = false ∧ q.msgs.any (fun m => m.lease == l) = false) :
    legalPicks now route target batch q
      ((scan (readyId now route target q.msgs) (effBatch batch) order []).zip leases) = true := by
  obtain ⟨hnd', _, hmem, _⟩ := scan_spec (readyId now route target q.msgs) (effBatch batch) order
  have hcount := scan_count now route target batch q.msgs order hnd hc
  have hfst : ((scan (readyId now route target q.msgs) (effBatch batch) order []).zip leases).map (·.1)
      = scan (readyId now route target q.msgs) (effBatch batch) order [] :=
    List.map_fst_zip (Nat.le_of_eq hlen.symm)
  have hsnd : ((scan (readyId now route target q.msgs) (effBatch batch) order []).zip leases).map (·.2)
      = leases :=
    List.map_snd_zip (Nat.le_of_eq hlen)
  unfold legalPicks
  simp only [Bool.and_eq_true, beq_iff_eq, hfst, hsnd, nodupStr_iff', List.all_eq_true]
  refine ⟨⟨⟨?_, hnd'⟩, hl⟩, ?_⟩
  · rw [List.length_zip, hlen, Nat.min_self]; exact hcount
  · rintro ⟨a, b⟩ hp
    have ha : a ∈ scan (readyId now route target q.msgs) (effBatch batch) order [] := (List.of_mem_zip hp).1
    have hb : b ∈ leases := (List.of_mem_zip hp).2
    obtain ⟨hb1, hb2, hb3⟩ := hfresh b hb
    have hra := (readyId_iff now route target q.msgs a).mp (hmem a ha).1
    simp only [readyIds, List.mem_map] at hra
    obtain ⟨m, hm, hid⟩ := hra
    have hany : (q.msgs.filter (ready now route target)).any (·.id == a) = true :=
      List.any_eq_true.mpr ⟨m, hm, by simp [hid]⟩
    have hb2' : ¬ b ∈ q.issued := by
      intro h; rw [List.contains_iff_mem.mpr h] at hb2; cases hb2
    simp [hany, hb1, hb2', hb3]

/-! ### the code's list handling (regenerated) -/

/-- `s.order` is appended to by the two enqueue paths, rewritten only by `compactOrderLocked` (reset when nothing is stored,
    else the filtered copy), read by the dequeue scan, the eviction scan and the compaction; `Dequeue` compacts at each of
    its three exits of a pass; the thresholds and the keep-condition are the model's -/
theorem code_order_sites :
    Gen.MemOrder.orderWrites = [("Enqueue", "append-id"), ("EnqueueBatch", "append-id"),
                                ("compactOrderLocked", "reset"), ("compactOrderLocked", "set:out")] ∧
    Gen.MemOrder.orderScans = [("oldestQueuedIDsLocked", "range"), ("Dequeue", "range"), ("compactOrderLocked", "range")] ∧
    Gen.MemOrder.compactCalls = [("Dequeue", "3")] ∧
    Gen.MemOrder.compactMin = compactMin ∧ Gen.MemOrder.compactFactor = compactFactor ∧
    Gen.MemOrder.compactKeeps = "s.items[id] != nil" := by decide

/-! ### non-vacuity -/

example : scan (fun id => id == "a" || id == "c") 2 ["a", "b", "a", "c", "c"] [] = ["a", "c"] := by decide
example : compactWith 4 1 ["a", "x", "b", "x", "a"] ["a", "b"] = ["a", "b", "a"] := by decide
/-- a compaction that forgets non-queued messages (seeded C05-m3) loses coverage -/
example : ¬ Cover (["a", "b"].filter (· == "a")) ["a", "b"] := by
  intro h; have := h "b" (by simp); simp at this

end Hk.MemOrder
