import HkModel.Model.PublishScoped
import HkModel.Props.C15
/-!
  C15 — Admin endpoint-scoped publish (`POST /applications/{application}/endpoints/{endpoint_name}/messages/publish`):
  property theorems over the scoped part of `Hk.Publish` (`Model/PublishScoped.lean`).

  * `scoped_accept_implies_all_valid` — an accepted request passed every gate and is valid in every item;
  * `scoped_publish_cases`, `scoped_publish_all_or_nothing` — all or nothing against the queue model;
  * `scoped_first_offender_shape`, `scoped_first_offender_pass`, `scoped_first_offender` — first offender reporting;
  * `scoped_selector_recheck_dead`, `scoped_selector_mismatch_unreachable` — `validateScopedManagedSelector` is dead
    code behind the selector-hint test;
  * `scopedPreflight_reject_cases` — every rejection is the answer of exactly one stage, in Go order.
-/
namespace Hk.Publish
open Hk

/-! ### the parse loop with `requireSelector = false` -/

/-- what an item that passes the scoped parse loop satisfies (the negation of `scopedShapeBad`, clause by clause) -/
theorem scopedShapeBad_false {seen : List String} {it : Item} (h : scopedShapeBad seen it = false) :
    trim it.id ≠ "" ∧
    (trim it.route ≠ "" → startsSlash (trim it.route) = true) ∧
    ((trim it.app = "") ↔ (trim it.ep = "")) ∧
    (trim it.app ≠ "" → validLabel (trim it.app) = true) ∧
    (trim it.ep ≠ "" → validLabel (trim it.ep) = true) ∧
    trim it.id ∉ seen := by
  unfold scopedShapeBad at h
  simp only [Bool.or_eq_false_iff] at h
  obtain ⟨⟨⟨⟨⟨h1, h3⟩, h5⟩, h6⟩, h7⟩, h8⟩ := h
  refine ⟨by simpa using h1, ?_, ?_, ?_, ?_, by simpa using h8⟩
  · intro hr
    cases hs : startsSlash (trim it.route) with
    | true => rfl
    | false => simp [hr, hs] at h3
  · by_cases ha : trim it.app = "" <;> by_cases he : trim it.ep = "" <;> simp [ha, he] at h5 ⊢
  · intro ha
    cases hv : validLabel (trim it.app) with
    | true => rfl
    | false => simp [ha, hv] at h6
  · intro he
    cases hv : validLabel (trim it.ep) with
    | true => rfl
    | false => simp [he, hv] at h7

/-- the scoped parse loop is weaker than the global one: whatever it rejects, the global loop rejects too -/
theorem shapeBad_of_scopedShapeBad {seen : List String} {it : Item} (h : scopedShapeBad seen it = true) :
    shapeBad seen it = true := by
  unfold scopedShapeBad at h
  unfold shapeBad
  simp only [Bool.or_eq_true] at h ⊢
  rcases h with ((((h | h) | h) | h) | h) | h
  · exact .inl (.inl (.inl (.inl (.inl (.inl (.inl h))))))
  · exact .inl (.inl (.inl (.inl (.inl (.inr h)))))
  · exact .inl (.inl (.inl (.inr h)))
  · exact .inl (.inl (.inr h))
  · exact .inl (.inr h)
  · exact .inr h

theorem scopedShapeAux_some : ∀ (items : List Item) (seen : List String) (k i : Nat) (code : String),
    scopedShapeAux seen k items = some (i, code) →
    code = "invalid_body" ∧ ∃ n, i = k + n ∧
      (∃ it, items[n]? = some it ∧ scopedShapeBad (seen ++ seenBefore items n) it = true) ∧
      ∀ j, j < n → ∀ it, items[j]? = some it → scopedShapeBad (seen ++ seenBefore items j) it = false
  | [], _, _, _, _, h => by simp [scopedShapeAux] at h
  | it :: rest, seen, k, i, code, h => by
    simp only [scopedShapeAux] at h
    split at h
    next hb =>
      simp only [Option.some.injEq, Prod.mk.injEq] at h
      obtain ⟨rfl, rfl⟩ := h
      refine ⟨rfl, 0, rfl, ⟨it, rfl, by simpa [seenBefore] using hb⟩, ?_⟩
      intro j hj; omega
    next hb =>
      obtain ⟨hc, n, hn, ⟨it', hit', hbad⟩, hprev⟩ := scopedShapeAux_some rest _ _ _ _ h
      refine ⟨hc, n + 1, by omega, ⟨it', by simpa using hit', ?_⟩, ?_⟩
      · simpa [seenBefore, tid, List.append_assoc] using hbad
      · intro j hj it'' hit''
        cases j with
        | zero =>
          simp only [List.getElem?_cons_zero, Option.some.injEq] at hit''
          subst hit''
          simpa [seenBefore] using hb
        | succ j =>
          have := hprev j (by omega) it'' (by simpa using hit'')
          simpa [seenBefore, tid, List.append_assoc] using this

theorem scopedShapeAux_none : ∀ (items : List Item) (seen : List String) (k : Nat),
    scopedShapeAux seen k items = none →
    ∀ j it, items[j]? = some it → scopedShapeBad (seen ++ seenBefore items j) it = false
  | [], _, _, _ => by intro j it h; simp at h
  | it :: rest, seen, k, h => by
    simp only [scopedShapeAux] at h
    split at h
    · cases h
    next hb =>
      intro j it' hit'
      cases j with
      | zero =>
        simp only [List.getElem?_cons_zero, Option.some.injEq] at hit'
        subst hit'
        simpa [seenBefore] using hb
      | succ j =>
        have := scopedShapeAux_none rest _ _ h j it' (by simpa using hit')
        simpa [seenBefore, tid, List.append_assoc] using this

theorem scopedShapeAux_none_nodup : ∀ (items : List Item) (seen : List String) (k : Nat),
    scopedShapeAux seen k items = none → (items.map tid).Nodup ∧ ∀ it ∈ items, tid it ∉ seen
  | [], _, _, _ => by simp
  | it :: rest, seen, k, h => by
    simp only [scopedShapeAux] at h
    split at h
    · cases h
    next hb =>
      have hb' : scopedShapeBad seen it = false := by simpa using hb
      have hns : trim it.id ∉ seen := (scopedShapeBad_false hb').2.2.2.2.2
      obtain ⟨hnd, hdisj⟩ := scopedShapeAux_none_nodup rest _ _ h
      refine ⟨?_, ?_⟩
      · rw [List.map_cons, List.nodup_cons]
        refine ⟨?_, hnd⟩
        intro hmem
        obtain ⟨it', hit', heq⟩ := List.mem_map.1 hmem
        exact hdisj it' hit' (by rw [heq]; simp [tid])
      · intro it' hit'
        rcases List.mem_cons.1 hit' with rfl | hr
        · exact hns
        · intro hmem
          exact hdisj it' hr (List.mem_append_left _ hmem)

/-- **The scoped parse loop reports its first offender.** -/
theorem scoped_first_offender_shape {items : List Item} {i : Nat} {code : String}
    (h : scopedShapePass items = some (i, code)) :
    code = "invalid_body" ∧
    ∃ hi : i < items.length,
      scopedShapeBad (seenBefore items i) items[i] = true ∧
      ∀ j (hj : j < i), scopedShapeBad (seenBefore items j) (items[j]'(Nat.lt_trans hj hi)) = false := by
  obtain ⟨hc, n, hn, ⟨it, hit, hbad⟩, hprev⟩ := scopedShapeAux_some items [] 0 i code h
  have hin : i = n := by omega
  subst hin
  obtain ⟨hi, rfl⟩ := List.getElem?_eq_some_iff.1 hit
  refine ⟨hc, hi, by simpa using hbad, ?_⟩
  intro j hj
  have := hprev j hj (items[j]'(Nat.lt_trans hj hi)) (List.getElem?_eq_getElem _)
  simpa using this

/-- scoped parse loop silent ⇒ every item passes the per-item condition -/
theorem scopedShapePass_none {items : List Item} (h : scopedShapePass items = none) :
    ∀ j (hj : j < items.length), scopedShapeBad (seenBefore items j) items[j] = false := by
  intro j hj
  have := scopedShapeAux_none items [] 0 h j items[j] (List.getElem?_eq_getElem _)
  simpa using this

/-- scoped parse loop silent ⇒ the trimmed ids of the request are pairwise distinct -/
theorem scopedShapePass_none_nodup {items : List Item} (h : scopedShapePass items = none) :
    (items.map tid).Nodup :=
  (scopedShapeAux_none_nodup items [] 0 h).1

/-! ### the per-item loop -/

theorem hasSelectorHints_false {it : Item} (h : hasSelectorHints it = false) :
    trim it.route = "" ∧ trim it.app = "" ∧ trim it.ep = "" := by
  unfold hasSelectorHints at h
  simp only [Bool.or_eq_false_iff, bne_eq_false_iff_eq] at h
  exact ⟨h.1.1, h.1.2, h.2⟩

/-- **`validateScopedManagedSelector` is dead code in the scoped loop.** Behind the selector-hint test (all three
    hints blank) it answers `true` whatever the scope's route, application and endpoint_name are — in particular
    for the real URL values, which the model does not carry. -/
theorem scoped_selector_recheck_dead {it : Item} (h : hasSelectorHints it = false)
    (route application endpointName : String) :
    validateScopedSelector route application endpointName (trim it.route) (trim it.app) (trim it.ep) = true := by
  obtain ⟨hr, ha, he⟩ := hasSelectorHints_false h
  have h0 : trim "" = "" := by
    have := trim_idem it.route
    rwa [hr] at this
  unfold validateScopedSelector
  simp [hr, ha, he, h0]

theorem scopedPolicyError_none {ctx : Ctx} {sc : ScopeCtx} {r : RouteInfo} {ts : List String}
    (h : scopedPolicyError ctx sc r ts = none) :
    r.publishEnabled = true ∧ sc.managedEnabled = true ∧
    (routeMode r ts = "pull" → ctx.allowPull = true) ∧ (routeMode r ts = "deliver" → ctx.allowDeliver = true) := by
  unfold scopedPolicyError at h
  split at h
  · cases h
  next h1 =>
    split at h
    · cases h
    next h2 =>
      simp only at h
      split at h
      · cases h
      next h3 =>
        split at h
        · cases h
        next h4 =>
          refine ⟨by simpa using h1, by simpa using h2, ?_, ?_⟩
          · intro hm; simpa [hm] using h3
          · intro hm; simpa [hm] using h4

theorem scopedPolicyError_some {ctx : Ctx} {sc : ScopeCtx} {r : RouteInfo} {ts : List String} {code : String}
    (h : scopedPolicyError ctx sc r ts = some code) :
    code = "route_publish_disabled" ∨ code = "pull_route_publish_disabled" ∨
      code = "deliver_route_publish_disabled" := by
  unfold scopedPolicyError at h
  simp only at h
  repeat' split at h
  all_goals first | (cases h; simp) | cases h

/-- the answers `publishEnvelopeFromItem` can fail with -/
theorem envelopeFromItem_error {it : Item} {route target : String} {mb mh st : Nat} {code : String}
    (h : envelopeFromItem it route target mb mh = .error (st, code)) :
    (st = 400 ∧ (code = "invalid_received_at" ∨ code = "invalid_next_run_at" ∨ code = "invalid_payload_b64" ∨
        code = "invalid_header")) ∨
    (st = 413 ∧ (code = "payload_too_large" ∨ code = "headers_too_large")) := by
  unfold envelopeFromItem at h
  repeat' split at h
  all_goals first | (cases h; simp) | cases h

/-- What is known about an item of the scoped path and the envelope prepared from it. -/
structure ScopedPublished (r : RouteInfo) (it : Item) (e : Hk.Env) : Prop where
  /-- the item carries no selector hint -/
  noHints : hasSelectorHints it = false
  routeBlank : trim it.route = ""
  appBlank : trim it.app = ""
  epBlank : trim it.ep = ""
  /-- the envelope fields: the route is the scope's route -/
  id : e.id = trim it.id
  route : e.route = r.path
  recv : e.recv = it.recv
  next : e.next = it.next
  attempt : e.attempt = 0
  /-- the target is one of the route's normalised targets: the requested one, or the only one -/
  target : e.target ∈ normTargets r.targets
  targetAsked : trim it.target ≠ "" → e.target = trim it.target
  targetOnly : trim it.target = "" → normTargets r.targets = [e.target]
  /-- the payload decodes and fits the route's max_body -/
  payload : ∃ bytes, payloadOf it = some bytes ∧ bytes.length ≤ r.maxBody ∧ e.payload = hexOf bytes
  /-- the headers are valid and fit the route's max_headers -/
  headersValid : validHeaders it.headers = true
  headersFit : headerBytes it.headers ≤ r.maxHeaders
  /-- timestamps parsed -/
  recvOK : it.recvOK = true
  nextOK : it.nextOK = true

/-- **Everything the scoped loop establishes for one item.** -/
theorem scopedItemPass_ok {r : RouteInfo} {it : Item} {e : Hk.Env} (h : scopedItemPass r it = .ok e) :
    ScopedPublished r it e := by
  unfold scopedItemPass at h
  split at h
  · cases h
  next hh =>
    have hh' : hasSelectorHints it = false := by simpa using hh
    obtain ⟨hr, ha, he⟩ := hasSelectorHints_false hh'
    split at h
    · cases h
    split at h
    · cases h
    next target hres =>
      obtain ⟨hmem, hasked, honly⟩ :=
        resolveTarget_mem (fun c hc => (mem_normTargets hc).2.2) hres
      rw [trim_idem] at hasked honly
      obtain ⟨e1, e2, e3, e4, e5, e6, e7, e8, e9, e10, e11⟩ := envelopeFromItem_ok h
      exact {
        noHints := hh', routeBlank := hr, appBlank := ha, epBlank := he,
        id := e6, route := e7, recv := e9, next := e10, attempt := e11, target := e8 ▸ hmem,
        targetAsked := fun hne => e8 ▸ hasked hne, targetOnly := fun heq => e8 ▸ honly heq,
        payload := e3, headersValid := e4, headersFit := e5, recvOK := e1, nextOK := e2 }

/-- Every failure of the scoped loop body, in Go order. `selector_scope_mismatch` is not among them. -/
theorem scopedItemPass_error_cases {r : RouteInfo} {it : Item} {st : Nat} {code : String}
    (h : scopedItemPass r it = .error (st, code)) :
    (st = 400 ∧ code = "selector_scope_forbidden" ∧ hasSelectorHints it = true) ∨
    (hasSelectorHints it = false ∧ st = 400 ∧ code = "target_unresolvable" ∧
      resolveTarget (trim it.target) (normTargets r.targets) = none) ∨
    (hasSelectorHints it = false ∧ ∃ t, resolveTarget (trim it.target) (normTargets r.targets) = some t ∧
      envelopeFromItem it r.path t r.maxBody r.maxHeaders = .error (st, code)) := by
  unfold scopedItemPass at h
  split at h
  next hh =>
    cases h
    exact .inl ⟨rfl, rfl, hh⟩
  next hh =>
    have hh' : hasSelectorHints it = false := by simpa using hh
    split at h
    next hv =>
      rw [scoped_selector_recheck_dead hh'] at hv
      simp at hv
    · split at h
      next hres =>
        cases h
        exact .inr (.inl ⟨hh', rfl, rfl, hres⟩)
      next t hres => exact .inr (.inr ⟨hh', t, hres, h⟩)

/-- the loop never answers `selector_scope_mismatch` -/
theorem scoped_selector_mismatch_unreachable {r : RouteInfo} {it : Item} {st : Nat} :
    scopedItemPass r it ≠ .error (st, "selector_scope_mismatch") := by
  intro h
  rcases scopedItemPass_error_cases h with ⟨_, hc, _⟩ | ⟨_, _, hc, _⟩ | ⟨_, t, _, he⟩
  · exact absurd hc (by decide)
  · exact absurd hc (by decide)
  · rcases envelopeFromItem_error he with ⟨_, hc | hc | hc | hc⟩ | ⟨_, hc | hc⟩ <;> exact absurd hc (by decide)

/-- the status codes the scoped loop can answer with -/
theorem scopedItemPass_error_status {r : RouteInfo} {it : Item} {st : Nat} {code : String}
    (h : scopedItemPass r it = .error (st, code)) : st = 400 ∨ st = 413 := by
  rcases scopedItemPass_error_cases h with ⟨hs, _⟩ | ⟨_, hs, _⟩ | ⟨_, t, _, he⟩
  · exact .inl hs
  · exact .inl hs
  · rcases envelopeFromItem_error he with ⟨hs, _⟩ | ⟨hs, _⟩
    · exact .inl hs
    · exact .inr hs

theorem scopedPass2_error {r : RouteInfo} : ∀ (items : List Item) (k i st : Nat) (code : String),
    scopedPass2 r k items = .error (i, st, code) →
    ∃ n, i = k + n ∧ (∃ it, items[n]? = some it ∧ scopedItemPass r it = .error (st, code)) ∧
      ∀ j, j < n → ∀ it, items[j]? = some it → ∃ e, scopedItemPass r it = .ok e
  | [], _, _, _, _, h => by simp [scopedPass2] at h
  | it :: rest, k, i, st, code, h => by
    simp only [scopedPass2] at h
    split at h
    next st' code' he =>
      simp only [Except.error.injEq, Prod.mk.injEq] at h
      obtain ⟨rfl, rfl, rfl⟩ := h
      exact ⟨0, rfl, ⟨it, rfl, he⟩, fun j hj => by omega⟩
    next e he =>
      split at h
      next x hx =>
        cases h
        obtain ⟨n, hn, ⟨it', hit', herr⟩, hprev⟩ := scopedPass2_error rest _ _ _ _ hx
        refine ⟨n + 1, by omega, ⟨it', by simpa using hit', herr⟩, ?_⟩
        intro j hj it'' hit''
        cases j with
        | zero =>
          simp only [List.getElem?_cons_zero, Option.some.injEq] at hit''
          subst hit''
          exact ⟨e, he⟩
        | succ j => exact hprev j (by omega) it'' (by simpa using hit'')
      · cases h

theorem scopedPass2_ok {r : RouteInfo} : ∀ (items : List Item) (k : Nat) (envs : List Hk.Env),
    scopedPass2 r k items = .ok envs →
    envs.length = items.length ∧
    ∀ n (h1 : n < items.length) (h2 : n < envs.length), scopedItemPass r items[n] = .ok envs[n]
  | [], _, envs, h => by
    simp only [scopedPass2, Except.ok.injEq] at h
    subst h
    exact ⟨rfl, fun n h1 => by simp at h1⟩
  | it :: rest, k, envs, h => by
    simp only [scopedPass2] at h
    split at h
    · cases h
    next e he =>
      split at h
      · cases h
      next es hes =>
        cases h
        obtain ⟨hl, hall⟩ := scopedPass2_ok rest (k + 1) es hes
        refine ⟨by simp [hl], ?_⟩
        intro n h1 h2
        cases n with
        | zero => simpa using he
        | succ n =>
          simpa using hall n (by simpa using h1) (by simpa using h2)

theorem scopedPass2_ok_ids {r : RouteInfo} {items : List Item} {k : Nat} {envs : List Hk.Env}
    (h : scopedPass2 r k items = .ok envs) : envs.map (·.id) = items.map tid := by
  obtain ⟨hl, hall⟩ := scopedPass2_ok items k envs h
  apply List.ext_getElem (by simp [hl])
  intro n h1 h2
  simp only [List.length_map] at h1 h2
  have hp := scopedItemPass_ok (hall n h2 h1)
  simp [tid, hp.id]

/-- **The scoped loop reports its first offender.** If the loop answers `(i, status, code)` then item `i` exists,
    `scopedItemPass` fails on it with exactly that `(status, code)`, and `scopedItemPass` succeeds on every earlier
    item: `i` is the least index whose `scopedItemPass` fails. -/
theorem scoped_first_offender_pass {r : RouteInfo} {items : List Item} {i st : Nat} {code : String}
    (h : scopedPass2 r 0 items = .error (i, st, code)) :
    ∃ hi : i < items.length,
      scopedItemPass r items[i] = .error (st, code) ∧
      ∀ j (hj : j < i), ∃ e, scopedItemPass r (items[j]'(Nat.lt_trans hj hi)) = .ok e := by
  obtain ⟨n, hn, ⟨it, hit, herr⟩, hprev⟩ := scopedPass2_error items 0 i st code h
  have hin : i = n := by omega
  subst hin
  obtain ⟨hi, rfl⟩ := List.getElem?_eq_some_iff.1 hit
  exact ⟨hi, herr, fun j hj => hprev j hj _ (List.getElem?_eq_getElem _)⟩

/-! ### the handler up to the store call -/

/-- Every rejection is the answer of exactly one stage; the stages run in this (Go) order and a later stage only
    runs when all earlier ones were silent. -/
theorem scopedPreflight_reject_cases {ctx : Ctx} {sc : ScopeCtx} {ac : AuditCfg} {a : Audit}
    {existing : List String} {items : List Item} {st : Nat} {code : String} {idx : Option Nat}
    (h : scopedPreflight ctx sc ac a existing items = .reject st code idx) :
    -- scoped path disabled
    (idx = none ∧ st = 403 ∧ code = "scoped_publish_disabled" ∧ sc.scopedEnabled = false) ∨
    -- unknown managed endpoint
    (idx = none ∧ st = 404 ∧ code = "managed_endpoint_not_found" ∧ sc.scopedEnabled = true ∧ sc.route = none) ∨
    (∃ r, sc.scopedEnabled = true ∧ sc.route = some r ∧
      -- no targets
      ((idx = none ∧ st = 400 ∧ code = "managed_endpoint_no_targets" ∧ normTargets r.targets = []) ∨
       (normTargets r.targets ≠ [] ∧
        -- audit
        ((idx = none ∧ st = 400 ∧ auditError ac true a = some code) ∨
         (auditError ac true a = none ∧
          -- route policy
          ((idx = none ∧ st = 403 ∧ scopedPolicyError ctx sc r (normTargets r.targets) = some code) ∨
           (scopedPolicyError ctx sc r (normTargets r.targets) = none ∧
            -- request level
            ((idx = none ∧ st = 400 ∧ code = "invalid_body" ∧ (items = [] ∨ items.length > 1000)) ∨
             (items ≠ [] ∧ items.length ≤ 1000 ∧
              -- parse loop
              ((∃ i, idx = some i ∧ st = 400 ∧ scopedShapePass items = some (i, code)) ∨
               (scopedShapePass items = none ∧
                -- per-item loop
                ((∃ i, idx = some i ∧ scopedPass2 r 0 items = .error (i, st, code)) ∨
                 -- already stored
                 (∃ i envs, idx = some i ∧ st = 409 ∧ code = "duplicate_id" ∧ scopedPass2 r 0 items = .ok envs ∧
                   firstExisting existing (envs.map (·.id)) = some i))))))))))))) := by
  unfold scopedPreflight at h
  split at h
  next hen =>
    cases h
    exact .inl ⟨rfl, rfl, rfl, by simpa using hen⟩
  next hen =>
    have hen' : sc.scopedEnabled = true := by simpa using hen
    split at h
    next hr =>
      cases h
      exact .inr (.inl ⟨rfl, rfl, rfl, hen', hr⟩)
    next r hr =>
      refine .inr (.inr ⟨r, hen', hr, ?_⟩)
      split at h
      next ht =>
        cases h
        exact .inl ⟨rfl, rfl, rfl, by simpa using ht⟩
      next ht =>
        refine .inr ⟨by simpa using ht, ?_⟩
        split at h
        next code' hau =>
          cases h
          exact .inl ⟨rfl, rfl, hau⟩
        next hau =>
          refine .inr ⟨hau, ?_⟩
          split at h
          next code' hpol =>
            cases h
            exact .inl ⟨rfl, rfl, hpol⟩
          next hpol =>
            refine .inr ⟨hpol, ?_⟩
            split at h
            next hsz =>
              cases h
              exact .inl ⟨rfl, rfl, rfl, by simpa [maxItems] using hsz⟩
            next hsz =>
              have hsz' : items ≠ [] ∧ items.length ≤ 1000 := by simpa [maxItems] using hsz
              refine .inr ⟨hsz'.1, hsz'.2, ?_⟩
              split at h
              next i code' hs =>
                cases h
                exact .inl ⟨i, rfl, rfl, hs⟩
              next hs =>
                refine .inr ⟨hs, ?_⟩
                split at h
                next i st' code' hp =>
                  cases h
                  exact .inl ⟨i, rfl, hp⟩
                next envs hp =>
                  split at h
                  next i hex =>
                    cases h
                    exact .inr ⟨i, envs, rfl, rfl, rfl, hp, hex⟩
                  · cases h

/-- a rejection never carries status 200 -/
theorem scopedPreflight_reject_status {ctx : Ctx} {sc : ScopeCtx} {ac : AuditCfg} {a : Audit}
    {existing : List String} {items : List Item} {st : Nat} {code : String} {idx : Option Nat}
    (h : scopedPreflight ctx sc ac a existing items = .reject st code idx) :
    st = 400 ∨ st = 403 ∨ st = 404 ∨ st = 409 ∨ st = 413 := by
  rcases scopedPreflight_reject_cases h with ⟨_, h, _⟩ | ⟨_, h, _⟩ | ⟨r, _, _, h⟩
  · exact .inr (.inl h)
  · exact .inr (.inr (.inl h))
  · rcases h with ⟨_, h, _⟩ | ⟨_, ⟨_, h, _⟩ | ⟨_, ⟨_, h, _⟩ | ⟨_, ⟨_, h, _⟩ | ⟨_, _, ⟨_, _, h, _⟩ | ⟨_, h⟩⟩⟩⟩⟩
    · exact .inl h
    · exact .inl h
    · exact .inr (.inl h)
    · exact .inl h
    · exact .inl h
    · rcases h with ⟨i, _, hp⟩ | ⟨_, _, _, h, _⟩
      · obtain ⟨_, herr, _⟩ := scoped_first_offender_pass hp
        rcases scopedItemPass_error_status herr with h | h
        · exact .inl h
        · exact .inr (.inr (.inr (.inr h)))
      · exact .inr (.inr (.inr (.inl h)))

/-- **An accepted scoped request passed every gate and is valid in every item.** -/
theorem scoped_accept_implies_all_valid {ctx : Ctx} {sc : ScopeCtx} {ac : AuditCfg} {a : Audit}
    {existing : List String} {items : List Item} {envs : List Hk.Env}
    (h : scopedPreflight ctx sc ac a existing items = .accept envs) :
    sc.scopedEnabled = true ∧
    ∃ r, sc.route = some r ∧
      normTargets r.targets ≠ [] ∧
      auditError ac true a = none ∧
      r.publishEnabled = true ∧ sc.managedEnabled = true ∧
      (routeMode r (normTargets r.targets) = "pull" → ctx.allowPull = true) ∧
      (routeMode r (normTargets r.targets) = "deliver" → ctx.allowDeliver = true) ∧
      items ≠ [] ∧ items.length ≤ 1000 ∧
      envs.length = items.length ∧
      (∀ i (h1 : i < items.length) (h2 : i < envs.length),
        scopedItemPass r items[i] = .ok envs[i] ∧
        -- no selector hint
        hasSelectorHints items[i] = false ∧
        -- the envelope
        envs[i].id = trim items[i].id ∧
        envs[i].route = r.path ∧
        envs[i].target ∈ normTargets r.targets ∧
        (∃ bytes, payloadOf items[i] = some bytes ∧ bytes.length ≤ r.maxBody ∧ envs[i].payload = hexOf bytes) ∧
        validHeaders items[i].headers = true ∧
        headerBytes items[i].headers ≤ r.maxHeaders) ∧
      scopedShapePass items = none ∧
      envs.map (·.id) = items.map (fun it => trim it.id) ∧
      (items.map (fun it => trim it.id)).Nodup ∧
      (∀ it ∈ items, trim it.id ∉ existing) := by
  unfold scopedPreflight at h
  split at h
  · cases h
  next hen =>
    refine ⟨by simpa using hen, ?_⟩
    split at h
    · cases h
    next r hr =>
      refine ⟨r, hr, ?_⟩
      split at h
      · cases h
      next ht =>
        split at h
        · cases h
        next hau =>
          split at h
          · cases h
          next hpol =>
            split at h
            · cases h
            next hsz =>
              split at h
              · cases h
              next hs =>
                split at h
                · cases h
                next envs' hp =>
                  split at h
                  · cases h
                  next hex =>
                    cases h
                    obtain ⟨hp1, hp2, hp3, hp4⟩ := scopedPolicyError_none hpol
                    obtain ⟨hl, hall⟩ := scopedPass2_ok items 0 envs hp
                    have hids := scopedPass2_ok_ids hp
                    have hsz' : items ≠ [] ∧ items.length ≤ 1000 := by simpa [maxItems] using hsz
                    refine ⟨by simpa using ht, hau, hp1, hp2, hp3, hp4, hsz'.1, hsz'.2, hl, ?_, hs, hids,
                      scopedShapePass_none_nodup hs, ?_⟩
                    · intro i h1 h2
                      have hok := hall i h1 h2
                      have p := scopedItemPass_ok hok
                      exact ⟨hok, p.noHints, p.id, p.route, p.target, p.payload, p.headersValid, p.headersFit⟩
                    · intro it hit
                      apply firstExisting_none hex
                      rw [hids]
                      exact List.mem_map.2 ⟨it, hit, rfl⟩

/-- the full per-item record (`ScopedPublished`) for every accepted item -/
theorem scoped_published_shape {ctx : Ctx} {sc : ScopeCtx} {ac : AuditCfg} {a : Audit}
    {existing : List String} {items : List Item} {envs : List Hk.Env}
    (h : scopedPreflight ctx sc ac a existing items = .accept envs) :
    ∃ r, sc.route = some r ∧
      ∀ i (h1 : i < items.length) (h2 : i < envs.length), ScopedPublished r items[i] envs[i] := by
  obtain ⟨_, r, hr, _, _, _, _, _, _, _, _, _, hall, _⟩ := scoped_accept_implies_all_valid h
  exact ⟨r, hr, fun i h1 h2 => scopedItemPass_ok (hall i h1 h2).1⟩

/-- **First offender, at the level of the handler's answer.** If the parse loop found nothing and the handler rejects
    with an item index `i`, then either `i` is the LEAST index whose `scopedItemPass` fails, and `(status, code)` is
    exactly that failure; or every item passes the loop and `i` is the least index whose trimmed id is already
    stored (`409 duplicate_id`). -/
theorem scoped_first_offender {ctx : Ctx} {sc : ScopeCtx} {ac : AuditCfg} {a : Audit}
    {existing : List String} {items : List Item} {st i : Nat} {code : String}
    (hs : scopedShapePass items = none)
    (h : scopedPreflight ctx sc ac a existing items = .reject st code (some i)) :
    ∃ r, sc.route = some r ∧ ∃ hi : i < items.length,
      (scopedItemPass r items[i] = .error (st, code) ∧
        ∀ j (hj : j < i), ∃ e, scopedItemPass r (items[j]'(Nat.lt_trans hj hi)) = .ok e) ∨
      (st = 409 ∧ code = "duplicate_id" ∧
        (∀ j (hj : j < items.length), ∃ e, scopedItemPass r items[j] = .ok e) ∧
        trim items[i].id ∈ existing ∧
        ∀ j (hj : j < i), trim (items[j]'(Nat.lt_trans hj hi)).id ∉ existing) := by
  rcases scopedPreflight_reject_cases h with ⟨h, _⟩ | ⟨h, _⟩ | ⟨r, _, hr, h⟩
  · cases h
  · cases h
  · refine ⟨r, hr, ?_⟩
    rcases h with ⟨h, _⟩ | ⟨_, ⟨h, _⟩ | ⟨_, ⟨h, _⟩ | ⟨_, ⟨h, _⟩ | ⟨_, _, ⟨i', _, _, h⟩ | ⟨_, h⟩⟩⟩⟩⟩
    · cases h
    · cases h
    · cases h
    · cases h
    · rw [hs] at h; cases h
    · rcases h with ⟨i', hi', hp⟩ | ⟨i', envs, hi', hst, hcode, hp, hex⟩
      · cases hi'
        obtain ⟨hi, herr, hprev⟩ := scoped_first_offender_pass hp
        exact ⟨hi, .inl ⟨herr, hprev⟩⟩
      · cases hi'
        obtain ⟨hl, hall⟩ := scopedPass2_ok items 0 envs hp
        have hids := scopedPass2_ok_ids hp
        obtain ⟨hi, hmem, hprev⟩ := first_offender_existing hex
        have hi' : i < items.length := by simpa [hids] using hi
        refine ⟨hi', .inr ⟨hst, hcode, fun j hj => ⟨_, hall j hj (by omega)⟩, ?_, ?_⟩⟩
        · simpa [hids, tid] using hmem
        · intro j hj
          have := hprev j hj
          simpa [hids, tid] using this

/-! ### composition with the queue: all or nothing -/

/-- **All or nothing, precisely** (the scoped analogue of `publish_cases`). -/
theorem scoped_publish_cases {ac : AuditCfg} {a : Audit} {sc : ScopeCtx} {c : Cfg} {now : Int} {q q' : Q}
    {ctx : Ctx} {items : List Item} {ch : Choice} {resp : PubResp}
    (h : scopedPublish ac a sc c now q ctx items ch = some (q', resp)) :
    (∃ st code idx, scopedPreflight ctx sc ac a (q.msgs.map (·.id)) items = .reject st code idx ∧ q' = q ∧
        resp = ⟨st, code, idx, 0⟩ ∧ st ≠ 200) ∨
    (∃ envs q1, scopedPreflight ctx sc ac a (q.msgs.map (·.id)) items = .accept envs ∧
        prune c now q ch.gone = some q1 ∧
        ((∃ e, q' = q1 ∧ resp = respOfStore (.err e)) ∨
         (resp = ⟨200, "", none, items.length⟩ ∧
          ∃ kept, q'.msgs = kept ++ envs.map (mkMsg now) ∧ kept.Sublist q1.msgs))) := by
  unfold scopedPublish at h
  split at h
  next st code idx hpre =>
    cases h
    left
    refine ⟨st, code, idx, hpre, rfl, rfl, ?_⟩
    rcases scopedPreflight_reject_status hpre with h | h | h | h | h <;> omega
  next envs hpre =>
    right
    obtain ⟨_, r, _, _, _, _, _, _, _, hne, _, hlen, _⟩ := scoped_accept_implies_all_valid hpre
    have hen : envs.isEmpty = false := by
      cases envs with
      | nil => exact absurd (List.length_eq_zero_iff.1 hlen.symm) hne
      | cons _ _ => rfl
    split at h
    · cases h
    next q2 r hstep =>
      cases h
      simp only [step, hen, Bool.false_eq_true, ite_false, withPrune] at hstep
      split at hstep
      · cases hstep
      next q1 hq1 =>
        refine ⟨envs, q1, hpre, hq1, ?_⟩
        rcases enqueueCore_batch hstep with ⟨rfl, e, rfl⟩ | ⟨rfl, kept, hk, hsub⟩
        · exact .inl ⟨e, rfl, rfl⟩
        · exact .inr ⟨by simp [respOfStore, hlen], kept, hk, hsub⟩

/-- **All or nothing on the endpoint-scoped path.** Status 200 ⇒ every item was published (`published =
    items.length`, every trimmed id is in the queue). Any other status ⇒ nothing was published: no message was added
    (the state is the old one, or the old one after the retention prune that every store call piggy-backs — a sublist
    of the old state). -/
theorem scoped_publish_all_or_nothing {ac : AuditCfg} {a : Audit} {sc : ScopeCtx} {c : Cfg} {now : Int} {q q' : Q}
    {ctx : Ctx} {items : List Item} {ch : Choice} {resp : PubResp}
    (h : scopedPublish ac a sc c now q ctx items ch = some (q', resp)) :
    (resp.status = 200 →
      resp.published = items.length ∧ ∀ it ∈ items, trim it.id ∈ q'.msgs.map (·.id)) ∧
    (resp.status ≠ 200 →
      resp.published = 0 ∧ (q' = q ∨ prune c now q ch.gone = some q') ∧ q'.msgs.Sublist q.msgs) := by
  rcases scoped_publish_cases h with ⟨st, code, idx, _, rfl, rfl, hst⟩ |
      ⟨envs, q1, hpre, hq1, ⟨e, rfl, rfl⟩ | ⟨rfl, kept, hk, _⟩⟩
  · exact ⟨fun h => absurd h hst, fun _ => ⟨rfl, .inl rfl, List.Sublist.refl _⟩⟩
  · have := respOfStore_err_status e
    exact ⟨fun h => absurd h this.1, fun _ => ⟨this.2, .inr hq1, prune_sublist hq1⟩⟩
  · refine ⟨fun _ => ⟨rfl, ?_⟩, fun h => absurd rfl h⟩
    intro it hit
    obtain ⟨_, r, _, _, _, _, _, _, _, _, _, _, _, _, hids, _⟩ := scoped_accept_implies_all_valid hpre
    rw [hk, List.map_append, List.mem_append]
    right
    have : (envs.map (mkMsg now)).map (·.id) = envs.map (·.id) := by
      simp [List.map_map, Function.comp_def, mkMsg]
    rw [this, hids]
    exact List.mem_map.2 ⟨it, hit, rfl⟩

/-- a 200 on the scoped path additionally certifies every gate of the handler -/
theorem scoped_publish_ok_gates {ac : AuditCfg} {a : Audit} {sc : ScopeCtx} {c : Cfg} {now : Int} {q q' : Q}
    {ctx : Ctx} {items : List Item} {ch : Choice} {resp : PubResp}
    (h : scopedPublish ac a sc c now q ctx items ch = some (q', resp)) (h200 : resp.status = 200) :
    sc.scopedEnabled = true ∧ auditError ac true a = none ∧ sc.managedEnabled = true ∧
    ∃ r, sc.route = some r ∧ r.publishEnabled = true ∧
      ∀ it ∈ items, hasSelectorHints it = false := by
  rcases scoped_publish_cases h with ⟨st, code, idx, _, _, rfl, hst⟩ |
      ⟨envs, q1, hpre, _, ⟨e, _, rfl⟩ | _⟩
  · exact absurd h200 hst
  · exact absurd h200 (respOfStore_err_status e).1
  · obtain ⟨h1, r, hr, _, hau, hpe, hme, _, _, _, _, hlen, hall, _⟩ := scoped_accept_implies_all_valid hpre
    refine ⟨h1, hau, hme, r, hr, hpe, ?_⟩
    intro it hit
    obtain ⟨i, hi, rfl⟩ := List.getElem_of_mem hit
    exact (hall i hi (by omega)).2.1

/-- the scoped path keeps message ids pairwise distinct (the `nodup` clause of the queue invariant `Hk.Inv`) -/
theorem scoped_publish_ids_nodup {ac : AuditCfg} {a : Audit} {sc : ScopeCtx} {c : Cfg} {now : Int} {q q' : Q}
    {ctx : Ctx} {items : List Item} {ch : Choice} {resp : PubResp}
    (h : scopedPublish ac a sc c now q ctx items ch = some (q', resp))
    (hq : (q.msgs.map (·.id)).Nodup) : (q'.msgs.map (·.id)).Nodup := by
  rcases scoped_publish_cases h with ⟨st, code, idx, _, rfl, _⟩ |
      ⟨envs, q1, hpre, hq1, ⟨e, rfl, _⟩ | ⟨_, kept, hk, hsub⟩⟩
  · exact hq
  · exact ((prune_sublist hq1).map _).nodup hq
  · obtain ⟨_, r, _, _, _, _, _, _, _, _, _, _, _, _, hids, hnd, hex⟩ := scoped_accept_implies_all_valid hpre
    have hkq : (kept.map (·.id)).Sublist (q.msgs.map (·.id)) := (hsub.trans (prune_sublist hq1)).map _
    have hmk : (envs.map (mkMsg now)).map (·.id) = envs.map (·.id) := by
      simp [List.map_map, Function.comp_def, mkMsg]
    rw [hk, List.map_append, hmk, List.nodup_append]
    refine ⟨hkq.nodup hq, by rw [hids]; exact hnd, ?_⟩
    intro x hx y hy hxy
    rw [hids] at hy
    obtain ⟨it, hit, rfl⟩ := List.mem_map.1 hy
    exact hex it hit (hxy ▸ hkq.subset hx)

/-! ### non-vacuity -/

namespace DemoScoped

/-- a managed pull route (direct publish off: the scoped path does not consult `directEnabled`) -/
def mPull : RouteInfo :=
  { path := "/managed", targets := ["pull"], publishEnabled := true, directEnabled := false, managed := true,
    mode := "pull", maxBody := 16, maxHeaders := 64 }
/-- a managed deliver route with two distinct targets (one listed twice, one with surrounding blanks) -/
def mDeliver : RouteInfo :=
  { path := "/mout", targets := ["http://a/x", " http://b/y ", "http://a/x"],
    publishEnabled := true, directEnabled := false, managed := true, mode := "deliver",
    maxBody := 16, maxHeaders := 64 }
def ctx : Ctx := { routes := [mPull, mDeliver], allowPull := true, allowDeliver := true }
def scPull : ScopeCtx := { scopedEnabled := true, route := some mPull, managedEnabled := true }
def scDeliver : ScopeCtx := { scopedEnabled := true, route := some mDeliver, managedEnabled := true }
/-- `actor_allow ["ci-bot"]` -/
def ac : AuditCfg := { requireActor := false, requireRequestId := false, actorAllow := ["ci-bot"], actorPrefix := [] }
def audit : Audit := { reason := "backfill", actor := "ci-bot", requestId := "" }

/-- an item without selector hints -/
def item (id target b64 : String) (h : List (String × String) := []) : Item :=
  { id := id, route := "", target := target, app := "", ep := "", payloadB64 := b64, headers := h,
    recvOK := true, nextOK := true, recv := 0, next := 0 }

def batch2 : List Item := [item " a " "" "aGk=" [("X-A", "1")], item "b" " pull" ""]

end DemoScoped

open DemoScoped in
/-- a 2-item batch is accepted on a managed pull route, with these envelopes -/
example : scopedPreflight ctx scPull ac audit ["z"] batch2 = .accept
    [{ id := "a", route := "/managed", target := "pull", payload := "6869" },
     { id := "b", route := "/managed", target := "pull", payload := "" }] := by decide

open DemoScoped in
/-- … and published into an empty queue: 200, published = 2, ids in request order -/
example : (scopedPublish ac audit scPull {} 7 {} ctx batch2 {}).map (fun p => (p.1.msgs.map (·.id), p.2)) =
    some (["a", "b"], ⟨200, "", none, 2⟩) := by decide

open DemoScoped in
/-- … and refused as a whole by a full queue (max_depth 1, reject): nothing stored -/
example : (scopedPublish ac audit scPull { maxDepth := 1 } 7 {} ctx batch2 {}).map
    (fun p => (p.1.msgs.map (·.id), p.2)) = some ([], ⟨503, "queue_full", none, 0⟩) := by decide

open DemoScoped in
/-- the scoped path is disabled (`defaults.publish_policy.managed off`) -/
example : (scopedPublish ac audit { scPull with scopedEnabled := false } {} 7 {} ctx batch2 {}).map
    (fun p => (p.1.msgs.map (·.id), p.2)) = some ([], ⟨403, "scoped_publish_disabled", none, 0⟩) := by decide

open DemoScoped in
/-- unknown `(application, endpoint_name)` -/
example : scopedPreflight ctx { scPull with route := none } ac audit [] batch2 =
    .reject 404 "managed_endpoint_not_found" none := by decide

open DemoScoped in
/-- an item with a route hint — even the scope's own route — is refused, with its index -/
example : scopedPreflight ctx scPull ac audit [] [item "a" "" "", { item "b" "" "" with route := "/managed" }] =
    .reject 400 "selector_scope_forbidden" (some 1) := by decide

open DemoScoped in
/-- an item with an application+endpoint_name hint -/
example : scopedPreflight ctx scPull ac audit [] [{ item "a" "" "" with app := "billing", ep := "invoices" }] =
    .reject 400 "selector_scope_forbidden" (some 0) := by decide

open DemoScoped in
/-- no target on a 2-target deliver route -/
example : scopedPreflight ctx scDeliver ac audit [] [item "a" "http://b/y" "", item "b" "" ""] =
    .reject 400 "target_unresolvable" (some 1) := by decide

open DemoScoped in
/-- a target that is not one of the route's -/
example : scopedPreflight ctx scDeliver ac audit [] [item "a" "http://c/z" ""] =
    .reject 400 "target_unresolvable" (some 0) := by decide

open DemoScoped in
/-- actor not allowed by `actor_allow` -/
example : scopedPreflight ctx scPull ac { audit with actor := "dev" } [] batch2 =
    .reject 400 "audit_actor_not_allowed" none := by decide

open DemoScoped in
/-- an id that is already stored -/
example : scopedPreflight ctx scPull ac audit ["b"] batch2 = .reject 409 "duplicate_id" (some 1) := by decide

open DemoScoped in
/-- … the same through the queue: publish `batch2`, then a batch that repeats id "a" at index 1 -/
example : ((scopedPublish ac audit scPull {} 7 {} ctx batch2 {}).bind fun p =>
      scopedPublish ac audit scPull {} 8 p.1 ctx [item "c" "" "", item "a" "" ""] {}).map
      (fun p => (p.1.msgs.map (·.id), p.2)) =
    some (["a", "b"], ⟨409, "duplicate_id", some 1, 0⟩) := by decide

open DemoScoped in
/-- the Go order of the gates: audit before route policy before the 1..1000 rule before the parse loop -/
example :
    scopedPreflight ctx { scPull with managedEnabled := false } ac { audit with actor := "dev" } [] [] =
      .reject 400 "audit_actor_not_allowed" none ∧
    scopedPreflight ctx { scPull with managedEnabled := false } ac audit [] [] =
      .reject 403 "route_publish_disabled" none ∧
    scopedPreflight { ctx with allowPull := false } scPull ac audit [] [] =
      .reject 403 "pull_route_publish_disabled" none ∧
    scopedPreflight { ctx with allowDeliver := false } scDeliver ac audit [] [] =
      .reject 403 "deliver_route_publish_disabled" none ∧
    scopedPreflight ctx scPull ac audit [] [] = .reject 400 "invalid_body" none ∧
    scopedPreflight ctx { scPull with route := some { mPull with targets := [" "] } } ac
      { audit with actor := "dev" } [] batch2 = .reject 400 "managed_endpoint_no_targets" none := by decide

open DemoScoped in
/-- the parse loop runs over the whole request before the per-item loop: item 0 carries a route hint (a loop error),
    item 1 a blank id (a parse error) — the answer names item 1. A malformed route hint is `invalid_body`, not
    `selector_scope_forbidden`. -/
example :
    scopedPreflight ctx scPull ac audit [] [{ item "a" "" "" with route := "/managed" }, item " " "" ""] =
      .reject 400 "invalid_body" (some 1) ∧
    scopedPreflight ctx scPull ac audit [] [{ item "a" "" "" with route := "managed" }] =
      .reject 400 "invalid_body" (some 0) ∧
    scopedPreflight ctx scPull ac audit [] [item "a" "" "", item "a " "" ""] =
      .reject 400 "invalid_body" (some 1) := by decide

open DemoScoped in
example : scopedPreflight ctx scPull ac audit [] [item "a" "" "AAAAAAAAAAAAAAAAAAAAAAAA"] =
    .reject 413 "payload_too_large" (some 0) := by decide

#print axioms scoped_accept_implies_all_valid
#print axioms scoped_published_shape
#print axioms scoped_publish_cases
#print axioms scoped_publish_all_or_nothing
#print axioms scoped_publish_ok_gates
#print axioms scoped_publish_ids_nodup
#print axioms scoped_first_offender_shape
#print axioms scoped_first_offender_pass
#print axioms scoped_first_offender
#print axioms scoped_selector_recheck_dead
#print axioms scoped_selector_mismatch_unreachable
#print axioms scopedPreflight_reject_cases
#print axioms scopedPreflight_reject_status
#print axioms shapeBad_of_scopedShapeBad

end Hk.Publish
