import HkModel.Model.Publish
/-!
  C15 — Admin global direct publish (`POST /messages/publish`): property theorems over `Hk.Publish`.

  * `first_offender_shape`, `first_offender_item`, `first_offender_existing` — each pass reports its FIRST offender;
    `preflight_reject_cases` / `preflight_of_pass2_error` tie the passes to the handler's answer;
  * `accept_implies_all_valid` — an accepted request is valid in every item;
  * `published_shape` — what is known about every envelope that reaches the store;
  * `publish_cases`, `publish_all_or_nothing` — all or nothing against the queue model;
  * `pinned_first_offender_not_least` — the reported index is not always the least invalid index.
-/
namespace Hk.Publish
open Hk

/-! ### `strings.TrimSpace` is idempotent -/

theorem dropWhile_idem {α} (p : α → Bool) : ∀ l : List α, (l.dropWhile p).dropWhile p = l.dropWhile p
  | [] => rfl
  | a :: t => by
    by_cases h : p a = true
    · rw [List.dropWhile_cons_of_pos h]; exact dropWhile_idem p t
    · rw [List.dropWhile_cons_of_neg h, List.dropWhile_cons_of_neg h]

theorem dropWhile_self_of_append {α} (p : α → Bool) (x y : List α)
    (h : (x ++ y).dropWhile p = x ++ y) : x.dropWhile p = x := by
  cases x with
  | nil => rfl
  | cons a t =>
    by_cases hp : p a = true
    · rw [List.cons_append, List.dropWhile_cons_of_pos hp] at h
      have := (List.dropWhile_suffix p (l := t ++ y)).length_le
      rw [h] at this
      simp only [List.length_cons, List.length_append] at this
      omega
    · exact List.dropWhile_cons_of_neg hp

theorem trimList_idem (p : Char → Bool) (l : List Char) :
    (((((l.dropWhile p).reverse.dropWhile p).reverse).dropWhile p).reverse.dropWhile p).reverse =
      ((l.dropWhile p).reverse.dropWhile p).reverse := by
  obtain ⟨c, hc⟩ := List.dropWhile_suffix p (l := (l.dropWhile p).reverse)
  generalize hb : (l.dropWhile p).reverse.dropWhile p = b at hc ⊢
  have hbb : b.dropWhile p = b := by rw [← hb, dropWhile_idem]
  have ha : l.dropWhile p = b.reverse ++ c.reverse := by
    have := congrArg List.reverse hc
    simpa using this.symm
  have h1 : b.reverse.dropWhile p = b.reverse := by
    apply dropWhile_self_of_append p _ c.reverse
    rw [← ha, dropWhile_idem]
  rw [h1, List.reverse_reverse, hbb]

theorem trim_idem (s : String) : trim (trim s) = trim s := by
  unfold trim Hk.Egress.trimWS
  rw [String.toList_ofList, trimList_idem]

/-- the model's `utf8` is `String.toUTF8` -/
theorem utf8_eq_toUTF8 (s : String) : utf8 s = s.toUTF8.data.toList := by
  unfold utf8
  have : s.toUTF8 = s.toList.utf8Encode := by
    conv => lhs; rw [← String.ofList_toList (s := s)]
    simp
  rw [this, List.utf8Encode]
  simp

/-! ### pass 1 -/

/-- the trimmed id of an item -/
def tid (it : Item) : String := trim it.id

/-- the trimmed ids of the items before index `i` (Go's `seen` set when item `i` is examined) -/
def seenBefore (items : List Item) (i : Nat) : List String := (items.take i).map tid

theorem shapeAux_some : ∀ (items : List Item) (seen : List String) (k i : Nat) (code : String),
    shapeAux seen k items = some (i, code) →
    code = "invalid_body" ∧ ∃ n, i = k + n ∧
      (∃ it, items[n]? = some it ∧ shapeBad (seen ++ seenBefore items n) it = true) ∧
      ∀ j, j < n → ∀ it, items[j]? = some it → shapeBad (seen ++ seenBefore items j) it = false
  | [], _, _, _, _, h => by simp [shapeAux] at h
  | it :: rest, seen, k, i, code, h => by
    simp only [shapeAux] at h
    split at h
    next hb =>
      simp only [Option.some.injEq, Prod.mk.injEq] at h
      obtain ⟨rfl, rfl⟩ := h
      refine ⟨rfl, 0, rfl, ⟨it, rfl, by simpa [seenBefore] using hb⟩, ?_⟩
      intro j hj; omega
    next hb =>
      obtain ⟨hc, n, hn, ⟨it', hit', hbad⟩, hprev⟩ := shapeAux_some rest _ _ _ _ h
      refine ⟨hc, n + 1, by omega, ⟨it', by simpa using hit', ?_⟩, ?_⟩
      · simpa [seenBefore, tid, List.append_assoc] using hbad
      · intro j hj it'' hit''
        cases j with
        | zero =>
          simp only [List.getElem?_cons_zero, Option.some.injEq] at hit''
          subst hit''
          simpa [seenBefore] using hb
        | succ j =>
          have := hprev j (by omega) it'' (by simpa using hit'')
          simpa [seenBefore, tid, List.append_assoc] using this

theorem shapeAux_none : ∀ (items : List Item) (seen : List String) (k : Nat),
    shapeAux seen k items = none →
    ∀ j it, items[j]? = some it → shapeBad (seen ++ seenBefore items j) it = false
  | [], _, _, _ => by intro j it h; simp at h
  | it :: rest, seen, k, h => by
    simp only [shapeAux] at h
    split at h
    · cases h
    next hb =>
      intro j it' hit'
      cases j with
      | zero =>
        simp only [List.getElem?_cons_zero, Option.some.injEq] at hit'
        subst hit'
        simpa [seenBefore] using hb
      | succ j =>
        have := shapeAux_none rest _ _ h j it' (by simpa using hit')
        simpa [seenBefore, tid, List.append_assoc] using this

/-- what a shape-correct item satisfies (the negation of `shapeBad`, clause by clause) -/
theorem shapeBad_false {seen : List String} {it : Item} (h : shapeBad seen it = false) :
    trim it.id ≠ "" ∧
    ¬ (trim it.route = "" ∧ trim it.app = "" ∧ trim it.ep = "") ∧
    (trim it.route ≠ "" → startsSlash (trim it.route) = true) ∧
    ((trim it.app = "") ↔ (trim it.ep = "")) ∧
    (trim it.app ≠ "" → validLabel (trim it.app) = true) ∧
    (trim it.ep ≠ "" → validLabel (trim it.ep) = true) ∧
    trim it.id ∉ seen := by
  unfold shapeBad at h
  simp only [Bool.or_eq_false_iff] at h
  obtain ⟨⟨⟨⟨⟨⟨⟨h1, h2⟩, h3⟩, _⟩, h5⟩, h6⟩, h7⟩, h8⟩ := h
  refine ⟨by simpa using h1, ?_, ?_, ?_, ?_, ?_, by simpa using h8⟩
  · intro ⟨a, b, c⟩; simp [a, b, c] at h2
  · intro hr
    cases hs : startsSlash (trim it.route) with
    | true => rfl
    | false => simp [hr, hs] at h3
  · by_cases ha : trim it.app = "" <;> by_cases he : trim it.ep = "" <;> simp [ha, he] at h5 ⊢
  · intro ha
    cases hv : validLabel (trim it.app) with
    | true => rfl
    | false => simp [ha, hv] at h6
  · intro he
    cases hv : validLabel (trim it.ep) with
    | true => rfl
    | false => simp [he, hv] at h7

theorem shapeAux_none_nodup : ∀ (items : List Item) (seen : List String) (k : Nat),
    shapeAux seen k items = none → (items.map tid).Nodup ∧ ∀ it ∈ items, tid it ∉ seen
  | [], _, _, _ => by simp
  | it :: rest, seen, k, h => by
    simp only [shapeAux] at h
    split at h
    · cases h
    next hb =>
      have hb' : shapeBad seen it = false := by simpa using hb
      have hns : trim it.id ∉ seen := (shapeBad_false hb').2.2.2.2.2.2
      obtain ⟨hnd, hdisj⟩ := shapeAux_none_nodup rest _ _ h
      refine ⟨?_, ?_⟩
      · rw [List.map_cons, List.nodup_cons]
        refine ⟨?_, hnd⟩
        intro hmem
        obtain ⟨it', hit', heq⟩ := List.mem_map.1 hmem
        exact hdisj it' hit' (by rw [heq]; simp [tid])
      · intro it' hit'
        rcases List.mem_cons.1 hit' with rfl | hr
        · exact hns
        · intro hmem
          exact hdisj it' hr (List.mem_append_left _ hmem)

/-- **Pass 1 reports its first offender.** If the parse loop answers `(i, code)`, then `code` is
    `invalid_body`, item `i` exists and fails the per-item condition against the ids seen before it, and every
    earlier item passes it. -/
theorem first_offender_shape {items : List Item} {i : Nat} {code : String}
    (h : shapePass items = some (i, code)) :
    code = "invalid_body" ∧
    ∃ hi : i < items.length,
      shapeBad (seenBefore items i) items[i] = true ∧
      ∀ j (hj : j < i), shapeBad (seenBefore items j) (items[j]'(Nat.lt_trans hj hi)) = false := by
  obtain ⟨hc, n, hn, ⟨it, hit, hbad⟩, hprev⟩ := shapeAux_some items [] 0 i code h
  have hin : i = n := by omega
  subst hin
  obtain ⟨hi, rfl⟩ := List.getElem?_eq_some_iff.1 hit
  refine ⟨hc, hi, by simpa using hbad, ?_⟩
  intro j hj
  have := hprev j hj (items[j]'(Nat.lt_trans hj hi)) (List.getElem?_eq_getElem _)
  simpa using this

/-- pass 1 silent ⇒ every item passes the per-item condition -/
theorem shapePass_none {items : List Item} (h : shapePass items = none) :
    ∀ j (hj : j < items.length), shapeBad (seenBefore items j) items[j] = false := by
  intro j hj
  have := shapeAux_none items [] 0 h j items[j] (List.getElem?_eq_getElem _)
  simpa using this

/-- pass 1 silent ⇒ the trimmed ids of the request are pairwise distinct -/
theorem shapePass_none_nodup {items : List Item} (h : shapePass items = none) : (items.map tid).Nodup :=
  (shapeAux_none_nodup items [] 0 h).1

/-- `firstManagedPublishItemIndex` reports the first item with a managed selector -/
theorem first_offender_managed {items : List Item} {i : Nat} (h : firstManaged items = some i) :
    ∃ hi : i < items.length, isManagedItem items[i] = true ∧
      ∀ j (hj : j < i), isManagedItem (items[j]'(Nat.lt_trans hj hi)) = false := by
  obtain ⟨hi, hp, hprev⟩ := List.findIdx?_eq_some_iff_getElem.1 h
  exact ⟨hi, hp, fun j hj => by simpa using hprev j hj⟩

/-- After pass 1 and the managed-selector check, the four re-checks at the top of the pass-2 loop body cannot
    fire: they are dead code in the handler. -/
theorem pass2_recheck_dead {seen : List String} {it : Item}
    (hs : shapeBad seen it = false) (hm : isManagedItem it = false) :
    trim it.app = "" ∧ trim it.ep = "" ∧ trim it.route ≠ "" ∧ startsSlash (trim it.route) = true := by
  obtain ⟨_, h2, h3, _, _, _, _⟩ := shapeBad_false hs
  unfold isManagedItem at hm
  simp only [Bool.or_eq_false_iff, bne_eq_false_iff_eq] at hm
  obtain ⟨ha, he⟩ := hm
  have hr : trim it.route ≠ "" := fun hr => h2 ⟨hr, ha, he⟩
  exact ⟨ha, he, hr, h3 hr⟩

/-! ### pass 2 -/

theorem mem_normTargetsAux : ∀ (l : List String) (seen : List String) (x : String),
    x ∈ normTargetsAux seen l → (∃ raw ∈ l, x = trim raw) ∧ x ≠ ""
  | [], _, _, h => by simp [normTargetsAux] at h
  | raw :: rest, seen, x, h => by
    simp only [normTargetsAux] at h
    have lift : ((∃ r ∈ rest, x = trim r) ∧ x ≠ "") → (∃ r ∈ raw :: rest, x = trim r) ∧ x ≠ "" :=
      fun ⟨⟨r, hr, he⟩, hne⟩ => ⟨⟨r, List.mem_cons_of_mem _ hr, he⟩, hne⟩
    split at h
    · exact lift (mem_normTargetsAux rest _ x h)
    next hne =>
      split at h
      · exact lift (mem_normTargetsAux rest _ x h)
      · rcases List.mem_cons.1 h with rfl | h
        · exact ⟨⟨raw, List.mem_cons_self, rfl⟩, by simpa using hne⟩
        · exact lift (mem_normTargetsAux rest _ x h)

/-- normalised targets are trimmed, non-blank, and come from the route's target list -/
theorem mem_normTargets {ts : List String} {x : String} (h : x ∈ normTargets ts) :
    (∃ raw ∈ ts, x = trim raw) ∧ x ≠ "" ∧ trim x = x := by
  obtain ⟨⟨raw, hr, he⟩, hne⟩ := mem_normTargetsAux ts [] x h
  exact ⟨⟨raw, hr, he⟩, hne, by rw [he, trim_idem]⟩

/-- `resolvePublishTarget` only ever answers with one of the allowed targets -/
theorem resolveTarget_mem {target : String} {allowed : List String} {x : String}
    (hall : ∀ c ∈ allowed, trim c = c) (h : resolveTarget target allowed = some x) :
    x ∈ allowed ∧ (trim target ≠ "" → x = trim target) ∧ (trim target = "" → allowed = [x]) := by
  unfold resolveTarget at h
  simp only at h
  split at h
  · cases h
  · split at h
    next ht =>
      have ht' : trim target = "" := by simpa using ht
      split at h
      · cases h; exact ⟨List.mem_singleton.2 rfl, fun hne => absurd ht' hne, fun _ => rfl⟩
      · cases h
    next ht =>
      have ht' : trim target ≠ "" := by simpa using ht
      split at h
      next hany =>
        cases h
        obtain ⟨c, hc, heq⟩ := List.any_eq_true.1 hany
        have : trim target = c := by rw [← hall c hc]; simpa using heq
        exact ⟨this ▸ hc, fun _ => rfl, fun he => absurd he ht'⟩
      · cases h

/-- the status codes pass 2 can answer with -/
theorem itemPass_error_status {ctx : Ctx} {it : Item} {st : Nat} {code : String}
    (h : itemPass ctx it = .error (st, code)) : st = 400 ∨ st = 403 ∨ st = 413 := by
  unfold itemPass at h
  simp only at h
  repeat' split at h
  all_goals first
    | (cases h; simp)
    | (unfold envelopeFromItem at h
       repeat' split at h
       all_goals first | (cases h; simp) | cases h)

/-- What is known about an item and the envelope prepared from it. -/
structure Published (ctx : Ctx) (it : Item) (e : Hk.Env) (r : RouteInfo) : Prop where
  /-- the route is the configured route with the item's (trimmed) path -/
  lookup : lookupRoute ctx (trim it.route) = some r
  routeMem : r ∈ ctx.routes
  path : r.path = trim it.route
  /-- the envelope fields -/
  id : e.id = trim it.id
  route : e.route = trim it.route
  recv : e.recv = it.recv
  next : e.next = it.next
  attempt : e.attempt = 0
  /-- the target is one of the route's normalised targets: the requested one, or the only one -/
  target : e.target ∈ normTargets r.targets
  targetAsked : trim it.target ≠ "" → e.target = trim it.target
  targetOnly : trim it.target = "" → normTargets r.targets = [e.target]
  /-- the payload decodes and fits the route's max_body -/
  payload : ∃ bytes, payloadOf it = some bytes ∧ bytes.length ≤ r.maxBody ∧ e.payload = hexOf bytes
  /-- the headers are valid and fit the route's max_headers -/
  headersValid : validHeaders it.headers = true
  headersFit : headerBytes it.headers ≤ r.maxHeaders
  /-- timestamps parsed -/
  recvOK : it.recvOK = true
  nextOK : it.nextOK = true
  /-- the publish policy allows the route -/
  publishEnabled : r.publishEnabled = true
  directEnabled : r.directEnabled = true
  notManaged : r.managed = false
  pullAllowed : routeMode r (normTargets r.targets) = "pull" → ctx.allowPull = true
  deliverAllowed : routeMode r (normTargets r.targets) = "deliver" → ctx.allowDeliver = true

theorem policyError_none {ctx : Ctx} {r : RouteInfo} {ts : List String} (h : policyError ctx r ts = none) :
    r.publishEnabled = true ∧ r.directEnabled = true ∧
    (routeMode r ts = "pull" → ctx.allowPull = true) ∧ (routeMode r ts = "deliver" → ctx.allowDeliver = true) := by
  unfold policyError at h
  split at h
  · cases h
  next h1 =>
    split at h
    · cases h
    next h2 =>
      simp only at h
      split at h
      · cases h
      next h3 =>
        split at h
        · cases h
        next h4 =>
          refine ⟨by simpa using h1, by simpa using h2, ?_, ?_⟩
          · intro hm; simpa [hm] using h3
          · intro hm; simpa [hm] using h4

theorem envelopeFromItem_ok {it : Item} {route target : String} {mb mh : Nat} {e : Hk.Env}
    (h : envelopeFromItem it route target mb mh = .ok e) :
    it.recvOK = true ∧ it.nextOK = true ∧
    (∃ bytes, payloadOf it = some bytes ∧ bytes.length ≤ mb ∧ e.payload = hexOf bytes) ∧
    validHeaders it.headers = true ∧ headerBytes it.headers ≤ mh ∧
    e.id = trim it.id ∧ e.route = route ∧ e.target = target ∧ e.recv = it.recv ∧ e.next = it.next ∧
    e.attempt = 0 := by
  unfold envelopeFromItem at h
  split at h
  · cases h
  next h1 =>
    split at h
    · cases h
    next h2 =>
      split at h
      · cases h
      next bytes hb =>
        split at h
        · cases h
        next h3 =>
          split at h
          · cases h
          next h4 =>
            split at h
            · cases h
            next h5 =>
              cases h
              exact ⟨by simpa using h1, by simpa using h2, ⟨bytes, hb, by omega, rfl⟩, by simpa using h4,
                by omega, rfl, rfl, rfl, rfl, rfl, rfl⟩

/-- **Everything pass 2 establishes for one item.** -/
theorem itemPass_ok {ctx : Ctx} {it : Item} {e : Hk.Env} (h : itemPass ctx it = .ok e) :
    ∃ r, Published ctx it e r := by
  unfold itemPass at h
  simp only at h
  split at h
  · cases h
  split at h
  · cases h
  split at h
  · cases h
  split at h
  · cases h
  split at h
  · cases h
  next r hr =>
    split at h
    · cases h
    next hman =>
      split at h
      · cases h
      split at h
      · cases h
      next hpol =>
        split at h
        · cases h
        next target hres =>
          split at h
          · cases h
          obtain ⟨hp1, hp2, hp3, hp4⟩ := policyError_none hpol
          obtain ⟨hmem, hasked, honly⟩ :=
            resolveTarget_mem (fun c hc => (mem_normTargets hc).2.2) hres
          obtain ⟨e1, e2, e3, e4, e5, e6, e7, e8, e9, e10, e11⟩ := envelopeFromItem_ok h
          have hfind : r ∈ ctx.routes := List.mem_of_find?_eq_some hr
          have hpath : r.path = trim it.route := by
            have := List.find?_some hr
            simpa using this
          exact ⟨r, {
            lookup := hr, routeMem := hfind, path := hpath, id := e6,
            route := e7, recv := e9, next := e10, attempt := e11, target := e8 ▸ hmem,
            targetAsked := fun hne => e8 ▸ hasked hne, targetOnly := fun he => e8 ▸ honly he,
            payload := e3, headersValid := e4, headersFit := e5, recvOK := e1, nextOK := e2,
            publishEnabled := hp1, directEnabled := hp2, notManaged := by simpa using hman,
            pullAllowed := hp3, deliverAllowed := hp4 }⟩

theorem pass2_error {ctx : Ctx} : ∀ (items : List Item) (k i st : Nat) (code : String),
    pass2 ctx k items = .error (i, st, code) →
    ∃ n, i = k + n ∧ (∃ it, items[n]? = some it ∧ itemPass ctx it = .error (st, code)) ∧
      ∀ j, j < n → ∀ it, items[j]? = some it → ∃ e, itemPass ctx it = .ok e
  | [], _, _, _, _, h => by simp [pass2] at h
  | it :: rest, k, i, st, code, h => by
    simp only [pass2] at h
    split at h
    next st' code' he =>
      simp only [Except.error.injEq, Prod.mk.injEq] at h
      obtain ⟨rfl, rfl, rfl⟩ := h
      exact ⟨0, rfl, ⟨it, rfl, he⟩, fun j hj => by omega⟩
    next e he =>
      split at h
      next x hx =>
        cases h
        obtain ⟨n, hn, ⟨it', hit', herr⟩, hprev⟩ := pass2_error rest _ _ _ _ hx
        refine ⟨n + 1, by omega, ⟨it', by simpa using hit', herr⟩, ?_⟩
        intro j hj it'' hit''
        cases j with
        | zero =>
          simp only [List.getElem?_cons_zero, Option.some.injEq] at hit''
          subst hit''
          exact ⟨e, he⟩
        | succ j => exact hprev j (by omega) it'' (by simpa using hit'')
      · cases h

theorem pass2_ok {ctx : Ctx} : ∀ (items : List Item) (k : Nat) (envs : List Hk.Env),
    pass2 ctx k items = .ok envs →
    envs.length = items.length ∧
    ∀ n (h1 : n < items.length) (h2 : n < envs.length), itemPass ctx items[n] = .ok envs[n]
  | [], _, envs, h => by
    simp only [pass2, Except.ok.injEq] at h
    subst h
    exact ⟨rfl, fun n h1 => by simp at h1⟩
  | it :: rest, k, envs, h => by
    simp only [pass2] at h
    split at h
    · cases h
    next e he =>
      split at h
      · cases h
      next es hes =>
        cases h
        obtain ⟨hl, hall⟩ := pass2_ok rest (k + 1) es hes
        refine ⟨by simp [hl], ?_⟩
        intro n h1 h2
        cases n with
        | zero => simpa using he
        | succ n =>
          simpa using hall n (by simpa using h1) (by simpa using h2)

theorem pass2_ok_ids {ctx : Ctx} {items : List Item} {k : Nat} {envs : List Hk.Env}
    (h : pass2 ctx k items = .ok envs) : envs.map (·.id) = items.map tid := by
  obtain ⟨hl, hall⟩ := pass2_ok items k envs h
  apply List.ext_getElem (by simp [hl])
  intro n h1 h2
  simp only [List.length_map] at h1 h2
  obtain ⟨r, hp⟩ := itemPass_ok (hall n h2 h1)
  simp [tid, hp.id]

/-- **Pass 2 reports its first offender.** If pass 2 answers `(i, status, code)` then item `i` exists,
    `itemPass` fails on it with exactly that `(status, code)`, and `itemPass` succeeds on every earlier item. -/
theorem first_offender_item {ctx : Ctx} {items : List Item} {i st : Nat} {code : String}
    (h : pass2 ctx 0 items = .error (i, st, code)) :
    ∃ hi : i < items.length,
      itemPass ctx items[i] = .error (st, code) ∧
      ∀ j (hj : j < i), ∃ e, itemPass ctx (items[j]'(Nat.lt_trans hj hi)) = .ok e := by
  obtain ⟨n, hn, ⟨it, hit, herr⟩, hprev⟩ := pass2_error items 0 i st code h
  have hin : i = n := by omega
  subst hin
  obtain ⟨hi, rfl⟩ := List.getElem?_eq_some_iff.1 hit
  exact ⟨hi, herr, fun j hj => hprev j hj _ (List.getElem?_eq_getElem _)⟩

/-! ### pass 3 -/

/-- **Pass 3 reports the smallest index whose id is already stored.** -/
theorem first_offender_existing {existing ids : List String} {i : Nat}
    (h : firstExisting existing ids = some i) :
    ∃ hi : i < ids.length, ids[i] ∈ existing ∧ ∀ j (hj : j < i), ids[j]'(Nat.lt_trans hj hi) ∉ existing := by
  obtain ⟨hi, hp, hprev⟩ := List.findIdx?_eq_some_iff_getElem.1 h
  exact ⟨hi, by simpa using hp, fun j hj => by simpa using hprev j hj⟩

theorem firstExisting_none {existing ids : List String} (h : firstExisting existing ids = none) :
    ∀ x ∈ ids, x ∉ existing := by
  intro x hx
  have := List.findIdx?_eq_none_iff.1 h x hx
  simpa using this

/-! ### the handler up to the store call -/

/-- Every rejection is the answer of exactly one stage; the stages run in this order and a later stage only
    runs when all earlier ones were silent. -/
theorem preflight_reject_cases {ctx : Ctx} {existing : List String} {items : List Item} {st : Nat}
    {code : String} {idx : Option Nat} (h : preflight ctx existing items = .reject st code idx) :
    -- request level
    (idx = none ∧ st = 400 ∧ code = "invalid_body" ∧ (items = [] ∨ items.length > 1000)) ∨
    -- pass 1
    (∃ i, idx = some i ∧ st = 400 ∧ shapePass items = some (i, code)) ∨
    -- managed selector on the global path
    (∃ i, idx = some i ∧ st = 400 ∧ code = "scoped_publish_required" ∧ shapePass items = none ∧
      firstManaged items = some i) ∨
    -- pass 2
    (∃ i, idx = some i ∧ shapePass items = none ∧ firstManaged items = none ∧
      pass2 ctx 0 items = .error (i, st, code)) ∨
    -- pass 3
    (∃ i envs, idx = some i ∧ st = 409 ∧ code = "duplicate_id" ∧ shapePass items = none ∧
      firstManaged items = none ∧ pass2 ctx 0 items = .ok envs ∧
      firstExisting existing (envs.map (·.id)) = some i) := by
  unfold preflight at h
  split at h
  next hsz =>
    cases h
    left
    refine ⟨rfl, rfl, rfl, ?_⟩
    simpa [maxItems] using hsz
  · split at h
    next i code' hs =>
      cases h
      right; left
      exact ⟨i, rfl, rfl, hs⟩
    next hs =>
      split at h
      next i hm =>
        cases h
        right; right; left
        exact ⟨i, rfl, rfl, rfl, hs, hm⟩
      next hm =>
        split at h
        next i st' code' hp =>
          cases h
          right; right; right; left
          exact ⟨i, rfl, hs, hm, hp⟩
        next envs hp =>
          split at h
          next i hex =>
            cases h
            right; right; right; right
            exact ⟨i, envs, rfl, rfl, rfl, hs, hm, hp, hex⟩
          · cases h

/-- the converse for pass 2: a well-sized, shape-correct, selector-free request on which pass 2 fails is
    answered with exactly pass 2's verdict -/
theorem preflight_of_pass2_error {ctx : Ctx} {existing : List String} {items : List Item} {i st : Nat}
    {code : String} (hne : items ≠ []) (hsz : items.length ≤ 1000) (hs : shapePass items = none)
    (hm : firstManaged items = none) (hp : pass2 ctx 0 items = .error (i, st, code)) :
    preflight ctx existing items = .reject st code (some i) := by
  unfold preflight
  have h1 : (items.isEmpty || decide (items.length > maxItems)) = false := by
    simp [maxItems, hne]; omega
  simp [h1, hs, hm, hp]

/-- a rejection never carries status 200 -/
theorem preflight_reject_status {ctx : Ctx} {existing : List String} {items : List Item} {st : Nat}
    {code : String} {idx : Option Nat} (h : preflight ctx existing items = .reject st code idx) :
    st = 400 ∨ st = 403 ∨ st = 413 ∨ st = 409 := by
  rcases preflight_reject_cases h with ⟨_, h, _⟩ | ⟨_, _, h, _⟩ | ⟨_, _, h, _⟩ | ⟨i, _, _, _, hp⟩ |
      ⟨_, _, _, h, _⟩
  · exact .inl h
  · exact .inl h
  · exact .inl h
  · obtain ⟨_, herr, _⟩ := first_offender_item hp
    rcases itemPass_error_status herr with h | h | h
    · exact .inl h
    · exact .inr (.inl h)
    · exact .inr (.inr (.inl h))
  · exact .inr (.inr (.inr h))

/-- **An accepted request is valid in every item.** -/
theorem accept_implies_all_valid {ctx : Ctx} {existing : List String} {items : List Item}
    {envs : List Hk.Env} (h : preflight ctx existing items = .accept envs) :
    items ≠ [] ∧ items.length ≤ 1000 ∧
    envs.length = items.length ∧
    (∀ i (h1 : i < items.length) (h2 : i < envs.length), itemPass ctx items[i] = .ok envs[i]) ∧
    shapePass items = none ∧
    firstManaged items = none ∧
    envs.map (·.id) = items.map (fun it => trim it.id) ∧
    (∀ it ∈ items, trim it.id ∉ existing) ∧
    (items.map (fun it => trim it.id)).Nodup := by
  unfold preflight at h
  split at h
  · cases h
  next hsz =>
    split at h
    · cases h
    next hs =>
      split at h
      · cases h
      next hm =>
        split at h
        · cases h
        next envs' hp =>
          split at h
          · cases h
          next hex =>
            cases h
            obtain ⟨hl, hall⟩ := pass2_ok items 0 envs hp
            have hids := pass2_ok_ids hp
            have hsz' : items ≠ [] ∧ items.length ≤ 1000 := by simpa [maxItems] using hsz
            refine ⟨hsz'.1, hsz'.2, hl, hall, hs, hm, hids, ?_, shapePass_none_nodup hs⟩
            intro it hit
            apply firstExisting_none hex
            rw [hids]
            exact List.mem_map.2 ⟨it, hit, rfl⟩

/-- **Shape of everything that reaches the store.** For an accepted request, envelope `i` belongs to item `i`,
    and there is a configured route `r` with: `r ∈ ctx.routes`, the envelope's target among `r`'s normalised
    targets, the payload decodable and within `r.maxBody`, the headers valid and within `r.maxHeaders`,
    publish and direct publish enabled on `r`, and `r` not managed (all fields of `Published`). -/
theorem published_shape {ctx : Ctx} {existing : List String} {items : List Item} {envs : List Hk.Env}
    (h : preflight ctx existing items = .accept envs) :
    ∀ i (h1 : i < items.length) (h2 : i < envs.length), ∃ r, Published ctx items[i] envs[i] r := by
  obtain ⟨_, _, _, hall, _⟩ := accept_implies_all_valid h
  exact fun i h1 h2 => itemPass_ok (hall i h1 h2)

/-- the same, spelled out as the conjunction the property asks for -/
theorem published_shape' {ctx : Ctx} {existing : List String} {items : List Item} {envs : List Hk.Env}
    (h : preflight ctx existing items = .accept envs) (i : Nat) (h1 : i < items.length) (h2 : i < envs.length) :
    ∃ r ∈ ctx.routes, r.path = trim items[i].route ∧
      envs[i].target ∈ normTargets r.targets ∧
      (∃ bytes, payloadOf items[i] = some bytes ∧ bytes.length ≤ r.maxBody ∧ envs[i].payload = hexOf bytes) ∧
      validHeaders items[i].headers = true ∧ headerBytes items[i].headers ≤ r.maxHeaders ∧
      r.publishEnabled = true ∧ r.directEnabled = true ∧ r.managed = false := by
  obtain ⟨r, p⟩ := published_shape h i h1 h2
  exact ⟨r, p.routeMem, p.path, p.target, p.payload, p.headersValid, p.headersFit, p.publishEnabled,
    p.directEnabled, p.notManaged⟩

/-! ### composition with the queue: all or nothing -/

theorem prune_sublist {c : Cfg} {now : Int} {q q1 : Q} {gone : List String}
    (h : prune c now q gone = some q1) : q1.msgs.Sublist q.msgs := by
  unfold prune at h
  split at h
  · simp only at h
    split at h
    · split at h
      · cases h
        exact (List.filter_sublist).trans List.filter_sublist
      · cases h
    · cases h; exact List.filter_sublist
  · cases h; exact List.Sublist.refl _

/-- `EnqueueBatch` on the (already pruned) state: a refusal changes nothing; a success appends exactly the new
    messages, in order, behind a sublist of the old ones (drop_oldest evictions). -/
theorem enqueueCore_batch {c : Cfg} {now : Int} {q q' : Q} {es : List Env} {ch : Choice} {r : Resp}
    (h : enqueueCore c now q es false ch = some (q', r)) :
    (q' = q ∧ ∃ e, r = .err e) ∨
    (r = .enqueued es.length ∧ ∃ kept, q'.msgs = kept ++ es.map (mkMsg now) ∧ kept.Sublist q.msgs) := by
  unfold enqueueCore at h
  dsimp only at h
  generalize (if (decide (needEvict c q.msgs es.length false > 0) && c.dropOldest) = true then ch.gone
    else []) = victims at h
  split at h
  · right
    split at h
    · split at h
      · cases h
        exact ⟨by simp, _, rfl, List.filter_sublist⟩
      · cases h
    · cases h
      exact ⟨by simp, _, rfl, List.Sublist.refl _⟩
  · left
    split at h
    · split at h
      · cases h; exact ⟨rfl, _, rfl⟩
      · cases h
    · split at h
      · cases h; exact ⟨rfl, _, rfl⟩
      · cases h

theorem respOfStore_err_status (e : Err) :
    (respOfStore (.err e)).status ≠ 200 ∧ (respOfStore (.err e)).published = 0 := by
  cases e <;> simp [respOfStore]

/-- **All or nothing, precisely.** Whatever `publish` answers:
    * a preflight rejection leaves the queue untouched (`q' = q`) and reports `published = 0`;
    * a store refusal leaves exactly the state after the piggy-backed retention prune (`q' = q1`);
    * a success stores ALL envelopes: the new state is a sublist of the pruned state followed by the new
      messages in request order, and `published = items.length`. -/
theorem publish_cases {c : Cfg} {now : Int} {q q' : Q} {ctx : Ctx} {items : List Item} {ch : Choice}
    {resp : PubResp} (h : publish c now q ctx items ch = some (q', resp)) :
    (∃ st code idx, preflight ctx (q.msgs.map (·.id)) items = .reject st code idx ∧ q' = q ∧
        resp = ⟨st, code, idx, 0⟩ ∧ st ≠ 200) ∨
    (∃ envs q1, preflight ctx (q.msgs.map (·.id)) items = .accept envs ∧
        prune c now q ch.gone = some q1 ∧
        ((∃ e, q' = q1 ∧ resp = respOfStore (.err e)) ∨
         (resp = ⟨200, "", none, items.length⟩ ∧
          ∃ kept, q'.msgs = kept ++ envs.map (mkMsg now) ∧ kept.Sublist q1.msgs))) := by
  unfold publish at h
  split at h
  next st code idx hpre =>
    cases h
    left
    refine ⟨st, code, idx, hpre, rfl, rfl, ?_⟩
    rcases preflight_reject_status hpre with h | h | h | h <;> omega
  next envs hpre =>
    right
    obtain ⟨hne, _, hlen, _⟩ := accept_implies_all_valid hpre
    have hen : envs.isEmpty = false := by
      cases envs with
      | nil => exact absurd (List.length_eq_zero_iff.1 hlen.symm) hne
      | cons _ _ => rfl
    split at h
    · cases h
    next q2 r hstep =>
      cases h
      simp only [step, hen, Bool.false_eq_true, ite_false, withPrune] at hstep
      split at hstep
      · cases hstep
      next q1 hq1 =>
        refine ⟨envs, q1, hpre, hq1, ?_⟩
        rcases enqueueCore_batch hstep with ⟨rfl, e, rfl⟩ | ⟨rfl, kept, hk, hsub⟩
        · exact .inl ⟨e, rfl, rfl⟩
        · exact .inr ⟨by simp [respOfStore, hlen], kept, hk, hsub⟩

/-- **All or nothing.** Status 200 ⇒ every item was published (`published = items.length`, every trimmed id
    is in the queue). Any other status ⇒ nothing was published: no message was added (the state is the old one,
    or the old one after the retention prune that every store call piggy-backs — a sublist of the old state). -/
theorem publish_all_or_nothing {c : Cfg} {now : Int} {q q' : Q} {ctx : Ctx} {items : List Item} {ch : Choice}
    {resp : PubResp} (h : publish c now q ctx items ch = some (q', resp)) :
    (resp.status = 200 →
      resp.published = items.length ∧ ∀ it ∈ items, trim it.id ∈ q'.msgs.map (·.id)) ∧
    (resp.status ≠ 200 →
      resp.published = 0 ∧ (q' = q ∨ prune c now q ch.gone = some q') ∧ q'.msgs.Sublist q.msgs) := by
  rcases publish_cases h with ⟨st, code, idx, _, rfl, rfl, hst⟩ |
      ⟨envs, q1, hpre, hq1, ⟨e, rfl, rfl⟩ | ⟨rfl, kept, hk, _⟩⟩
  · exact ⟨fun h => absurd h hst, fun _ => ⟨rfl, .inl rfl, List.Sublist.refl _⟩⟩
  · have := respOfStore_err_status e
    exact ⟨fun h => absurd h this.1, fun _ => ⟨this.2, .inr hq1, prune_sublist hq1⟩⟩
  · refine ⟨fun _ => ⟨rfl, ?_⟩, fun h => absurd rfl h⟩
    intro it hit
    obtain ⟨_, _, _, _, _, _, hids, _⟩ := accept_implies_all_valid hpre
    rw [hk, List.map_append, List.mem_append]
    right
    have : (envs.map (mkMsg now)).map (·.id) = envs.map (·.id) := by
      simp [List.map_map, Function.comp_def, mkMsg]
    rw [this, hids]
    exact List.mem_map.2 ⟨it, hit, rfl⟩

/-- success keeps queue ids distinct when they were (the new ids are distinct and not stored before) -/
theorem publish_ok_new_ids {ctx : Ctx} {existing : List String} {items : List Item} {envs : List Hk.Env}
    (h : preflight ctx existing items = .accept envs) :
    (envs.map (·.id)).Nodup ∧ ∀ x ∈ envs.map (·.id), x ∉ existing := by
  obtain ⟨_, _, _, _, _, _, hids, hex, hnd⟩ := accept_implies_all_valid h
  rw [hids]
  refine ⟨hnd, ?_⟩
  intro x hx
  obtain ⟨it, hit, rfl⟩ := List.mem_map.1 hx
  exact hex it hit

/-- `publish` keeps message ids pairwise distinct (the `nodup` clause of the queue invariant `Hk.Inv`). -/
theorem publish_ids_nodup {c : Cfg} {now : Int} {q q' : Q} {ctx : Ctx} {items : List Item} {ch : Choice}
    {resp : PubResp} (h : publish c now q ctx items ch = some (q', resp))
    (hq : (q.msgs.map (·.id)).Nodup) : (q'.msgs.map (·.id)).Nodup := by
  rcases publish_cases h with ⟨st, code, idx, _, rfl, _⟩ |
      ⟨envs, q1, hpre, hq1, ⟨e, rfl, _⟩ | ⟨_, kept, hk, hsub⟩⟩
  · exact hq
  · exact ((prune_sublist hq1).map _).nodup hq
  · obtain ⟨hnd, hfresh⟩ := publish_ok_new_ids hpre
    have hkq : (kept.map (·.id)).Sublist (q.msgs.map (·.id)) := (hsub.trans (prune_sublist hq1)).map _
    have hmk : (envs.map (mkMsg now)).map (·.id) = envs.map (·.id) := by
      simp [List.map_map, Function.comp_def, mkMsg]
    rw [hk, List.map_append, hmk, List.nodup_append]
    refine ⟨hkq.nodup hq, hnd, ?_⟩
    intro a ha b hb hab
    exact hfresh b hb (hab ▸ hkq.subset ha)

/-! ### non-vacuity -/

/-- the error of an `Except` (so that examples about `itemPass` are decidable propositions) -/
def errOf {ε α : Type} : Except ε α → Option ε
  | .error e => some e
  | .ok _ => none

namespace Demo

def pullRoute : RouteInfo :=
  { path := "/hooks", targets := ["pull"], publishEnabled := true, directEnabled := true, managed := false,
    mode := "pull", maxBody := 16, maxHeaders := 64 }
def deliverRoute : RouteInfo :=
  { path := "/out", targets := ["https://a.example/x", " https://b.example/y ", "https://a.example/x"],
    publishEnabled := true, directEnabled := true, managed := false, mode := "deliver",
    maxBody := 16, maxHeaders := 64 }
def managedRoute : RouteInfo :=
  { path := "/managed", targets := ["pull"], publishEnabled := true, directEnabled := true, managed := true,
    mode := "pull", maxBody := 16, maxHeaders := 64 }
def ctx : Ctx := { routes := [pullRoute, deliverRoute, managedRoute], allowPull := true, allowDeliver := true }

def item (id route target b64 : String) (h : List (String × String) := []) : Item :=
  { id := id, route := route, target := target, app := "", ep := "", payloadB64 := b64, headers := h,
    recvOK := true, nextOK := true, recv := 0, next := 0 }

/-- a 3-item batch (sole pull target defaulted, explicit deliver targets, binary payload, a header) -/
def batch3 : List Item :=
  [item " a " "/hooks" "" "aGk=" [("X-A", "1")],
   item "b" "/out" "https://b.example/y" "",
   item "c" " /out" " https://a.example/x" "AAEC/w=="]

end Demo

open Demo in
/-- a 3-item batch is accepted, with these envelopes -/
example : preflight ctx ["z"] batch3 = .accept
    [{ id := "a", route := "/hooks", target := "pull", payload := "6869" },
     { id := "b", route := "/out", target := "https://b.example/y", payload := "" },
     { id := "c", route := "/out", target := "https://a.example/x", payload := "000102ff" }] := by decide

open Demo in
/-- … and published into an empty queue: 200, published = 3, ids in request order -/
example : (publish {} 7 {} ctx batch3 {}).map (fun p => (p.1.msgs.map (·.id), p.2)) =
    some (["a", "b", "c"], ⟨200, "", none, 3⟩) := by decide

open Demo in
/-- … and refused as a whole by a full queue (max_depth 2, reject): nothing stored -/
example : (publish { maxDepth := 2 } 7 {} ctx batch3 {}).map (fun p => (p.1.msgs.map (·.id), p.2)) =
    some ([], ⟨503, "queue_full", none, 0⟩) := by decide

open Demo in
/-- **The reported index is not always the least invalid index.** Item 0 has an unresolvable target (a pass-2
    error), item 1 an empty id (a pass-1 error): pass 1 runs over the whole batch before pass 2 starts, so the
    answer names item 1. -/
theorem pinned_first_offender_not_least :
    errOf (itemPass ctx (item "a" "/out" "" "")) = some (400, "target_unresolvable") ∧
    preflight ctx [] [item "a" "/out" "" "", item " " "/hooks" "" ""] = .reject 400 "invalid_body" (some 1) := by
  decide

open Demo in
example : preflight ctx [] [item "a" "/out" "" ""] = .reject 400 "target_unresolvable" (some 0) := by decide
open Demo in
example : preflight ctx [] [item "a" "/managed" "" ""] = .reject 400 "managed_selector_required" (some 0) := by
  decide
open Demo in
example : preflight ctx [] [item "a" "/nope" "" ""] = .reject 400 "route_not_found" (some 0) := by decide
open Demo in
example : preflight ctx [] [item "a" "/hooks" "" "", item "a " "/hooks" "" ""] =
    .reject 400 "invalid_body" (some 1) := by decide
open Demo in
example : preflight ctx ["b"] [item "a" "/hooks" "" "", item "b" "/hooks" "" ""] =
    .reject 409 "duplicate_id" (some 1) := by decide
open Demo in
example : preflight ctx [] [item "a" "/hooks" "" "AAAAAAAAAAAAAAAAAAAAAAAA"] =
    .reject 413 "payload_too_large" (some 0) := by decide
open Demo in
example : preflight ctx [] [item "a" "/hooks" "" " aGk="] = .reject 400 "invalid_payload_b64" (some 0) := by
  decide
open Demo in
example : preflight ctx [] [item "a" "/hooks" "" "" [("X A", "1")]] = .reject 400 "invalid_header" (some 0) := by
  decide
open Demo in
example : preflight { ctx with allowPull := false } [] [item "a" "/hooks" "" ""] =
    .reject 403 "pull_route_publish_disabled" (some 0) := by decide
open Demo in
example : preflight ctx [] [{ item "a" "" "" "" with app := "app", ep := "ep" }] =
    .reject 400 "scoped_publish_required" (some 0) := by decide
example : preflight Demo.ctx [] [] = .reject 400 "invalid_body" none := by decide

/-! ### audit gate -/

/-- **What passing the audit checks means**, stated outright. -/
theorem audit_ok_spec (c : AuditCfg) (isScoped : Bool) (a : Audit) (h : auditError c isScoped a = none) :
    trim a.reason ≠ "" ∧ (c.requireActor = true → trim a.actor ≠ "") ∧ (c.requireRequestId = true → trim a.requestId ≠ "") ∧
    (isScoped = true → actorPolicyEnabled c = true → trim a.actor ≠ "" ∧ actorAllowed c (trim a.actor) = true) := by
  unfold auditError at h
  simp only at h
  split at h
  · cases h
  · rename_i hr
    split at h
    · cases h
    · split at h
      · cases h
      · rename_i ha
        split at h
        · cases h
        · rename_i hq
          refine ⟨by simpa using hr, ?_, ?_, ?_⟩
          · intro hc hn; apply ha; simp [hc, hn]
          · intro hc hn; apply hq; simp [hc, hn]
          · intro hs hp
            simp only [hs, hp, Bool.and_self, ite_true] at h
            split at h
            · cases h
            · rename_i hne
              split at h
              · cases h
              · rename_i hal
                exact ⟨by simpa using hne, by simpa using hal⟩

/-- every missing audit requirement rejects with 400 and leaves the queue untouched; a 200 implies the audit gate
    passed and the batch went in whole -/
theorem publishAudited_all_or_nothing {ac : AuditCfg} {a : Audit} {c : Cfg} {now : Int} {q q' : Q} {ctx : Ctx}
    {items : List Item} {ch : Choice} {resp : PubResp} (h : publishAudited ac a c now q ctx items ch = some (q', resp)) :
    (resp.status = 200 → auditError ac false a = none ∧
      resp.published = items.length ∧ ∀ it ∈ items, trim it.id ∈ q'.msgs.map (·.id)) ∧
    (resp.status ≠ 200 →
      resp.published = 0 ∧ (q' = q ∨ prune c now q ch.gone = some q') ∧ q'.msgs.Sublist q.msgs) := by
  unfold publishAudited at h
  split at h
  · simp only [Option.some.injEq, Prod.mk.injEq] at h
    obtain ⟨rfl, rfl⟩ := h
    exact ⟨fun h => by simp at h, fun _ => ⟨rfl, .inl rfl, List.Sublist.refl _⟩⟩
  · rename_i hnone
    have := publish_all_or_nothing h
    exact ⟨fun hs => ⟨hnone, this.1 hs⟩, this.2⟩

example : auditError ⟨false, true, ["ci-bot"], []⟩ true ⟨"r", "ci-bot", ""⟩ = some "audit_request_id_required" ∧
    auditError ⟨false, true, ["ci-bot"], []⟩ true ⟨"r", "ci-bot", "req-1"⟩ = none ∧
    auditError ⟨false, false, [], ["deploy-"]⟩ true ⟨"r", "deploy-7", ""⟩ = none ∧
    auditError ⟨false, false, [], ["deploy-"]⟩ true ⟨"r", "dev", ""⟩ = some "audit_actor_not_allowed" ∧
    auditError ⟨false, false, [], ["deploy-"]⟩ false ⟨"r", "", ""⟩ = none ∧
    auditError ⟨true, false, [], []⟩ false ⟨" ", "x", ""⟩ = some "audit_reason_required" := by decide

#print axioms audit_ok_spec
#print axioms publishAudited_all_or_nothing

#print axioms first_offender_shape
#print axioms first_offender_item
#print axioms first_offender_existing
#print axioms first_offender_managed
#print axioms pass2_recheck_dead
#print axioms preflight_reject_cases
#print axioms preflight_of_pass2_error
#print axioms accept_implies_all_valid
#print axioms published_shape
#print axioms published_shape'
#print axioms publish_cases
#print axioms publish_all_or_nothing
#print axioms publish_ok_new_ids
#print axioms publish_ids_nodup
#print axioms pinned_first_offender_not_least
#print axioms trim_idem
#print axioms utf8_eq_toUTF8

end Hk.Publish
