/-
Critical section of the token bucket (internal/app/ratelimit.go), over regenerated facts: C12's rate theorems treat
`refill, test, take` as one step.
-/
import HkModel.Props.LockScopes

namespace Hk.LockScopes
open Hk.Gen.Locks

theorem token_bucket_decision_is_a_single_critical_section :
    fileOK "internal/app/ratelimit.go" ["tokenBucketLimiter.AllowAt"] [] = true := by decide +kernel

end Hk.LockScopes
