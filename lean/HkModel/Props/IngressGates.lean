/-
  The ingress handler's gates, as written (C08 "fails closed", C10, C12: every refusal precedes the store).

  `Model/IngressAuth.flow` is the handler as a chain of gates — route, rate limit, admission pressure, basic auth, bounded body
  read, forward auth, HMAC, header limit, the per-target enqueue loop, 202 — and `Props/C08.lean` proves over it that a denial
  enqueues nothing and that a 202 implies every declared authenticator accepted. That the code *is* such a chain, in that
  order, is what this file checks over `Generated/IngressGates.lean`, the source-order sequence of the handler's accessor /
  verifier calls, status writes and returns, regenerated from `internal/ingress/http.go` on every run:

  * `ingress_gate_order`        — the accessors and verifiers are called in the order of `flow`'s gates;
  * `ingress_status_order`      — the statuses written, in order, are those of `flow`'s branches;
  * `ingress_refusals_return`   — every status other than 202 is followed at once by `return`: nothing happens after a refusal;
  * `ingress_store_after_gates` — `Store.Enqueue` is called once, after every authenticator and limit, and the single 202 is
                                  the last thing the handler does.
-/
import HkModel.Generated.IngressGates

namespace Hk.IngressGates

def names (kind : String) (es : List (String × String)) : List String :=
  (es.filter (·.1 == kind)).map (·.2)

theorem ingress_gate_order :
    names "call" Gen.ingressEvents =
      ["resolveRoute", "AllowedMethodsFor", "AllowRequestFor", "AllowEnqueueFor", "BasicAuthFor", "Verify", "LimitsFor",
       "ReadAll", "MaxBytesReader", "ForwardAuthFor", "Authorize", "HMACAuthFor", "Verify", "TargetsFor", "Enqueue"] := by decide

/-- `flow`: 405 / 404, 429, (pressure status), 401, 413 / 400, (auth service's verdict), 401, 413, 503, 202 -/
theorem ingress_status_order :
    names "write" Gen.ingressEvents =
      ["StatusMethodNotAllowed", "StatusNotFound", "StatusTooManyRequests", "var", "StatusUnauthorized",
       "StatusRequestEntityTooLarge", "StatusBadRequest", "var", "StatusUnauthorized", "StatusRequestEntityTooLarge",
       "StatusServiceUnavailable", "StatusAccepted"] := by decide

def refusalsReturn : List (String × String) → Bool
  | [] => true
  | e :: rest =>
    (if e.1 == "write" && e.2 != "StatusAccepted" then rest.head? == some ("return", "") else true) && refusalsReturn rest

theorem ingress_refusals_return : refusalsReturn Gen.ingressEvents = true := by decide

def before (a b : String × String) (es : List (String × String)) : Bool :=
  match es.idxOf? a, es.idxOf? b with
  | some i, some j => decide (i < j)
  | _, _ => false

/-- last position of an event -/
def lastIdx (a : String × String) (es : List (String × String)) : Option Nat :=
  (es.reverse.idxOf? a).map (fun k => es.length - 1 - k)

theorem ingress_store_after_gates :
    (names "call" Gen.ingressEvents).count "Enqueue" = 1 ∧
    -- every authenticator / limiter call, including the LAST `Verify` (the HMAC one), precedes the store
    (["AllowRequestFor", "AllowEnqueueFor", "BasicAuthFor", "ReadAll", "ForwardAuthFor", "Authorize", "HMACAuthFor", "Verify"].all fun g =>
      match lastIdx ("call", g) Gen.ingressEvents, Gen.ingressEvents.idxOf? ("call", "Enqueue") with
      | some i, some j => decide (i < j)
      | _, _ => false) = true ∧
    -- the 202 is written once, after the store, and is the last event
    (names "write" Gen.ingressEvents).count "StatusAccepted" = 1 ∧
    Gen.ingressEvents.getLast? = some ("write", "StatusAccepted") ∧
    before ("call", "Enqueue") ("write", "StatusAccepted") Gen.ingressEvents = true := by decide

/-- non-vacuity: a handler that enqueues before it verifies, or goes on after a 401, is rejected -/
example : refusalsReturn [("call", "Verify"), ("write", "StatusUnauthorized"), ("call", "Enqueue")] = false := by decide
example : before ("call", "Enqueue") ("call", "Verify") [("call", "Enqueue"), ("call", "Verify")] = true := by decide

end Hk.IngressGates
