/-
C19 — structural coverage of `config fmt` over the facts regenerated from internal/config on every run
(`Generated/FmtCover.lean`, go/types): necessary conditions of the round trip that hold for *every* directive of the
grammar, including those no test, document or generated text exercises.
-/
import HkModel.Generated.FmtCover

namespace Hk.FmtCover
open Hk.Gen.Fmt

/-- `xs` is a subsequence of `ys` (both tables are emitted sorted, so this decides inclusion in one pass) -/
def covered : List String → List String → Bool
  | [], _ => true
  | _ :: _, [] => false
  | x :: xs, y :: ys => if x == y then covered xs ys else covered (x :: xs) ys

theorem covered_spec (xs ys : List String) (h : covered xs ys = true) : ∀ x ∈ xs, x ∈ ys := by
  induction ys generalizing xs with
  | nil => cases xs with
    | nil => intro x hx; cases hx
    | cons a as => simp [covered] at h
  | cons y ys ih =>
    cases xs with
    | nil => intro x hx; cases hx
    | cons a as =>
      simp only [covered] at h
      split at h
      · rename_i hxy
        have hay : a = y := by simpa using hxy
        intro x hx
        cases hx with
        | head => exact hay ▸ List.mem_cons_self
        | tail _ hm => exact List.mem_cons_of_mem _ (ih as h x hm)
      · intro x hx
        exact List.mem_cons_of_mem _ (ih (a :: as) h x hx)

/-- Whatever the parser can record in the syntax tree, the formatter looks at: no field is set by parser.go that format.go
    never reads (a formatter that ignores a field prints a text that has lost it). -/
theorem formatter_reads_every_parsed_field : covered parserWrites formatterReads = true := by decide +kernel

theorem every_parsed_field_is_read : ∀ f ∈ parserWrites, f ∈ formatterReads :=
  covered_spec _ _ formatter_reads_every_parsed_field

/-- The formatter prints the tree it was given: it assigns no field of it. -/
theorem formatter_does_not_edit_tree : formatterWrites = [] := by decide +kernel

/-- Every word the parser's case clauses accept can be printed: it occurs in a string literal of format.go or is one of the
    constants kept as data in the tree (the channel names). -/
theorem formatter_prints_every_keyword : covered (parserKeywords.filter (fun k => !treeConstants.contains k)) formatterWords = true := by decide +kernel

/-- Every value is written with its own quoted-flag: in each `formatValue(v, q)` / `formatRoutePath(v, q)` call of
    format.go whose arguments are fields of the tree, `q` is the field `v…Quoted`. -/
theorem quoting_flags_are_the_values_own : quotingPairsMismatched = [] := by decide +kernel

/-- The tables are not empty (the obligations above are not vacuous). -/
theorem cover_tables_nonempty :
    400 ≤ parserWrites.length ∧ 400 ≤ formatterReads.length ∧ 100 ≤ parserKeywords.length ∧ 100 ≤ quotingPairs.length ∧
    "Route.Path" ∈ parserWrites ∧ "APIBlock.MaxBatchQuoted" ∈ parserWrites ∧ "max_batch" ∈ parserKeywords ∧
    "APIBlock.MaxBatch|APIBlock.MaxBatchQuoted" ∈ quotingPairs := by decide +kernel

end Hk.FmtCover
