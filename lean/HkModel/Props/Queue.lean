import HkModel.Proofs.InvStep
import HkModel.Proofs.C02Model
import HkModel.Proofs.Trimmed
import HkModel.Proofs.C03Model
import HkModel.Proofs.C04Model
import HkModel.Proofs.C05Model
import HkModel.Proofs.C12Model
import HkModel.Proofs.C14Model
/-!
  Queue family — property theorems at the level of *runs* of the model: every record the model can ever
  produce along any finite operation sequence (any length, any ids, any configuration, any legal choice of
  the implementation's free picks) satisfies the property predicates of `Obs/Queue.lean`.

  The step-level theorems are in `Proofs/*Model.lean`; this file only lifts them by induction over the
  operation list and states the hypotheses once.
-/
namespace Hk
open Hk.Obs

/-- one element of a history: clock value, operation, the implementation's free choices -/
structure TStep where
  now : Int
  op : Op
  ch : Choice

/-- Operations the implementation's API can express: `LeaseBatchStore` has no batch `extend`
    (the model's `leaseBatch` is generic in the lease kind only for uniformity). -/
def OpWF (_c : Cfg) (op : Op) : Prop :=
  (∀ d ls, op ≠ .leaseBatch (.extend d) ls) ∧ (∀ f, op ≠ .byFilter .deleteDead f) ∧ (∀ f, op ≠ .byFilter .requeueDead f)

/-- clock values never go backwards -/
def Monotone : Int → List TStep → Prop
  | _, [] => True
  | t, s :: rest => t ≤ s.now ∧ Monotone s.now rest

/-- the records an observer of the model writes along a history (stops at an illegal choice) -/
def run (c : Cfg) : Q → Hist → List TStep → List (Hist × Rec)
  | _, _, [] => []
  | q, h, s :: rest =>
    match step c s.now q s.op s.ch with
    | none => []
    | some (q', r) =>
      let rec_ := modelRec c s.now q s.op r q'
      (h, rec_) :: run c q' (C03.advance h rec_) rest

/-- **Every record of every run satisfies C02, C03, C04, C05, C12 and C14**, from any state satisfying the invariant
    (`ChWF`: the implementation's generated lease ids carry no surrounding whitespace). -/
theorem run_ok (c : Cfg) (hsweep : 0 ≤ c.sweep) :
    ∀ (tr : List TStep) (q : Q) (h : Hist) (t0 : Int),
      Inv q → Trimmed q → q.lastSweep ≤ t0 → 0 ≤ t0 → Monotone t0 tr → (∀ s ∈ tr, OpWF c s.op ∧ ChWF s.ch) →
      (∀ l ∈ h.issued, l ∈ q.issued) →
      ∀ hr ∈ run c q h tr,
        C02.stepOK' hr.2 = true ∧ C03.stepOK hr.1 hr.2 = true ∧ C04.stepOK' hr.2 = true ∧ C05.stepOK' hr.2 = true ∧
        C12.stepOK hr.2 = true ∧ C14.stepOK hr.2 = true := by
  intro tr
  induction tr with
  | nil => intro q h t0 _ _ _ _ _ _ _ hr hmem; simp [run] at hmem
  | cons s rest ih =>
    intro q h t0 hinv htrim hclock hpos hmono hwf hh hr hmem
    simp only [run] at hmem
    cases hstep : step c s.now q s.op s.ch with
    | none => simp [hstep] at hmem
    | some p =>
      obtain ⟨q', r⟩ := p
      simp only [hstep, List.mem_cons] at hmem
      have hs : t0 ≤ s.now := hmono.1
      have hwfs := (hwf s (by simp)).1
      have hchs := (hwf s (by simp)).2
      have hext : ∀ d ls, s.op = .leaseBatch (.extend d) ls → 0 ≤ d := fun d ls h => absurd h (hwfs.1 d ls)
      have h03 := P03.C03_model c s.now q q' s.op s.ch r h hinv hh hstep
      rcases hmem with rfl | hmem
      · refine ⟨?_, h03.1, ?_, ?_, ?_, ?_⟩
        · exact C02_model' c s.now q q' s.op s.ch r hinv (fun _ m hm _ => htrim m hm) hext
            (fun f h => absurd h (hwfs.2.1 f)) hstep
        · exact C04_model' c s.now q q' s.op s.ch r hinv (fun d ls h => absurd h (hwfs.1 d ls)) hstep
        · exact C05_model' c s.now q q' s.op s.ch r hinv (by omega) hsweep hstep
        · exact P12.C12_model c s.now q q' s.op s.ch r hinv hstep
        · exact P14.C14_model c s.now q q' s.op s.ch r hinv hstep
      · have hi := inv_step c s.now q q' s.op s.ch r hinv (by omega) (by omega) hext hstep
        have ht' := trimmed_step c s.now q q' s.op s.ch r htrim hchs hstep
        exact ih q' _ s.now hi.1 ht' hi.2 (by omega) hmono.2 (fun x hx => hwf x (by simp [hx])) h03.2 hr hmem

/-- the invariant holds in every state reachable from the empty store -/
theorem inv_reachable (c : Cfg) :
    ∀ (tr : List TStep) (q : Q) (t0 : Int), Inv q → q.lastSweep ≤ t0 → 0 ≤ t0 → Monotone t0 tr →
      (∀ s ∈ tr, OpWF c s.op) →
      ∀ q', (tr.foldl (fun (acc : Option Q) s => acc.bind (fun q => (step c s.now q s.op s.ch).map (·.1))) (some q)) = some q' →
      Inv q' := by
  intro tr
  induction tr with
  | nil => intro q t0 hinv _ _ _ _ q' h; simp at h; exact h ▸ hinv
  | cons s rest ih =>
    intro q t0 hinv hclock hpos hmono hwf q' h
    simp only [List.foldl_cons, Option.bind_some] at h
    cases hstep : step c s.now q s.op s.ch with
    | none =>
      simp only [hstep, Option.map_none] at h
      have : ∀ (l : List TStep), l.foldl (fun (acc : Option Q) s => acc.bind (fun q => (step c s.now q s.op s.ch).map (·.1))) none = none := by
        intro l; induction l with
        | nil => rfl
        | cons _ _ ih2 => simpa using ih2
      rw [this] at h; cases h
    | some p =>
      obtain ⟨q1, r⟩ := p
      simp only [hstep, Option.map_some] at h
      have hi := inv_step c s.now q q1 s.op s.ch r hinv (by have := hmono.1; omega) (by have := hmono.1; omega)
        (fun d ls h => absurd h ((hwf s (by simp)).1 d ls)) hstep
      exact ih q1 s.now hi.1 hi.2 (by have := hmono.1; omega) hmono.2 (fun x hx => hwf x (by simp [hx])) q' h

/-! ### non-vacuity: a concrete non-trivial run whose hypotheses hold -/

def demoEnv (i : String) : Env := { id := i, route := "/r", target := "pull" }
def demoTrace : List TStep :=
  [ ⟨10, .enqueue (demoEnv "a"), {}⟩, ⟨11, .enqueue (demoEnv "b"), {}⟩,
    ⟨12, .dequeue "/r" "" 1 5, { picks := [("a", "L1")] }⟩,
    ⟨13, .lease (.nack 3) "L1", {}⟩,
    ⟨20, .dequeue "" "" 2 0, { picks := [("a", "L2"), ("b", "L3")] }⟩,
    ⟨21, .lease .ack "L2", {}⟩, ⟨22, .byIds .cancel ["b"], {}⟩ ]

example : (run { maxDepth := 2 } {} {} demoTrace).length = 7 := by decide
example : Monotone 0 demoTrace := by simp [Monotone, demoTrace]
example : ∀ s ∈ demoTrace, OpWF { maxDepth := 2 } s.op ∧ ChWF s.ch := by
  intro s hs
  simp only [demoTrace, List.mem_cons, List.mem_nil_iff, or_false] at hs
  rcases hs with rfl | rfl | rfl | rfl | rfl | rfl | rfl <;>
    refine ⟨⟨by intro d ls; simp, by intro f; simp, by intro f; simp⟩, ?_⟩ <;>
    intro p hp <;> simp at hp <;> (try rcases hp with rfl | rfl) <;> (try subst hp) <;> decide

end Hk
