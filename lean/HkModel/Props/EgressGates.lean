/-
  The push delivery path as written (C16: "sends a request only to a URL the egress policy allows … every hop is checked the
  same way … deny rules win over allow rules … without any request being sent").

  `Model/Egress` and `Props/C16.lean` prove what the policy decides and that a delivery modelled as "check, then send" sends
  nothing when denied. That the code has that shape is checked here over `Generated/EgressGates.lean` — the source-order event
  sequences of `HTTPDeliverer.Deliver`, `checkRedirect` and `checkEgressPolicyURL`, regenerated on every run.
-/
import HkModel.Generated.EgressGates

namespace Hk.EgressGates

def eventsOf (fn : String) : List (String × String) :=
  match Gen.egressEvents.find? (·.1 == fn) with
  | some (_, es) => es
  | none => []

def calls (es : List (String × String)) : List String := (es.filter (·.1 == "call")).map (·.2)

/-- `Deliver`: the policy check is the first thing, its failure returns at once, and request construction, signing and the one
    `Client.Do` come after it in that order -/
theorem deliver_checks_policy_before_sending :
    calls (eventsOf "Deliver") = ["checkEgressPolicy", "NewRequestWithContext", "applyDeliverySigning", "Do"] ∧
    (eventsOf "Deliver").take 2 = [("call", "checkEgressPolicy"), ("return", "")] := by decide

/-- `checkRedirect`: at most ten hops, then every hop is checked by the same policy function before it is signed (and sent);
    the failure of the check returns at once -/
theorem redirect_hop_checked_before_signed :
    calls (eventsOf "checkRedirect") = ["checkEgressPolicyURL", "applyDeliverySigning"] ∧
    (eventsOf "checkRedirect").take 4 = [("if", "len(via) >= 10"), ("return", ""), ("call", "checkEgressPolicyURL"), ("return", "")] := by
  decide

def conds (es : List (String × String)) : List String := (es.filter (·.1 == "if")).map (·.2)

/-- `checkEgressPolicyURL`: https_only, then resolution, then the address classes (rebind protection), then the deny rules,
    then the allow list — deny is consulted before allow, and each of these conditions is followed by a `return` before the
    next one is looked at -/
theorem policy_conditions_in_order :
    conds (eventsOf "checkEgressPolicyURL") =
      ["policy.HTTPSOnly && strings.ToLower(u.Scheme) != \"https\"", "policy.DNSRebindProtection", "!isAllowedIP(ip)",
       "len(policy.Deny) > 0 && matchEgressRules(host, ips, policy.Deny)",
       "len(policy.Allow) > 0 && !matchEgressRules(host, ips, policy.Allow)"] ∧
    calls (eventsOf "checkEgressPolicyURL") = ["resolveHostIPs", "isAllowedIP", "matchEgressRules", "matchEgressRules"] := by decide

def denyBeforeAllowReturns (es : List (String × String)) : Bool :=
  match es.idxOf? ("if", "len(policy.Deny) > 0 && matchEgressRules(host, ips, policy.Deny)"),
        es.idxOf? ("if", "len(policy.Allow) > 0 && !matchEgressRules(host, ips, policy.Allow)") with
  | some i, some j => decide (i < j) && ((es.drop i).take (j - i)).contains ("return", "")
  | _, _ => false

theorem deny_rules_decide_before_allow_rules : denyBeforeAllowReturns (eventsOf "checkEgressPolicyURL") = true := by decide

example : denyBeforeAllowReturns [("if", "len(policy.Allow) > 0 && !matchEgressRules(host, ips, policy.Allow)"), ("return", ""),
    ("if", "len(policy.Deny) > 0 && matchEgressRules(host, ips, policy.Deny)"), ("return", "")] = false := by decide

end Hk.EgressGates
