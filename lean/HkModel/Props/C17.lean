import HkModel.Model.Signing
import HkModel.Props.C08
/-! C17 — HMAC signing and secret rotation windows. Property theorems (the inbound half is in Props/C08:
    `validSecrets_versions`, `hmac_reject_out_of_window_secret`, `window_boundaries`). -/
namespace Hk.Signing

theorem better_irrefl (m : Mode) (x : SVersion) : better m x x = false := by
  unfold better
  cases m <;> simp [String.lt_irrefl]

theorem better_trans (m : Mode) (a b c : SVersion) (h1 : better m a b = true) (h2 : better m b c = true) :
    better m a c = true := by
  unfold better at *
  cases m <;>
  · simp only [Bool.or_eq_true, decide_eq_true_eq, Bool.and_eq_true, beq_iff_eq] at *
    rcases h1 with h1 | ⟨h1, h1'⟩ <;> rcases h2 with h2 | ⟨h2, h2'⟩
    · left; omega
    · left; omega
    · left; omega
    · right; exact ⟨by omega, String.lt_trans h1' h2'⟩

theorem better_asymm (m : Mode) (a b : SVersion) (h : better m a b = true) : better m b a = false := by
  cases hb : better m b a with
  | false => rfl
  | true => have := better_trans m a b a h hb; rw [better_irrefl] at this; cases this

/-- two versions with different ids are always comparable -/
theorem better_total (m : Mode) (a b : SVersion) (hne : a.id ≠ b.id) : better m a b = true ∨ better m b a = true := by
  unfold better
  cases m <;>
  · simp only [Bool.or_eq_true, decide_eq_true_eq, Bool.and_eq_true, beq_iff_eq]
    rcases Int.lt_trichotomy (fromOf a) (fromOf b) with h | h | h
    · first | (left; left; omega) | (right; left; omega)
    · rcases String.le_total a.id b.id with hl | hl
      · left; right; refine ⟨h, ?_⟩
        exact String.not_le.mp (fun hge => hne (String.le_antisymm hl hge))
      · right; right; refine ⟨h.symm, ?_⟩
        exact String.not_le.mp (fun hge => hne (String.le_antisymm hge hl))
    · first | (left; left; omega) | (right; left; omega)

theorem selectFrom_spec (m : Mode) (t : Int) : ∀ (vs : List SVersion) (cur : Option SVersion) (seen : List SVersion),
    (∀ s, cur = some s → s.validAt t = true ∧ s ∈ seen ∧ ∀ v ∈ seen, v.validAt t = true → better m v s = false) →
    (cur = none → ∀ v ∈ seen, v.validAt t = false) →
    match selectFrom m t vs cur with
    | some r => r.validAt t = true ∧ r ∈ seen ++ vs ∧ ∀ v ∈ seen ++ vs, v.validAt t = true → better m v r = false
    | none => ∀ v ∈ seen ++ vs, v.validAt t = false := by
  intro vs
  induction vs with
  | nil =>
    intro cur seen h1 h2
    simp only [selectFrom, List.append_nil]
    cases cur with
    | none => exact h2 rfl
    | some s => exact h1 s rfl
  | cons x rest ih =>
    intro cur seen h1 h2
    simp only [selectFrom]
    have hassoc : seen ++ x :: rest = (seen ++ [x]) ++ rest := by simp
    rw [hassoc]
    cases hx : x.validAt t with
    | false =>
      simp only [Bool.not_false, ite_true]
      apply ih cur (seen ++ [x])
      · intro s hs
        obtain ⟨a, b, c⟩ := h1 s hs
        refine ⟨a, by simp [b], ?_⟩
        intro v hv hvv
        simp only [List.mem_append, List.mem_singleton] at hv
        rcases hv with hv | rfl
        · exact c v hv hvv
        · rw [hx] at hvv; cases hvv
      · intro hc v hv
        simp only [List.mem_append, List.mem_singleton] at hv
        rcases hv with hv | rfl
        · exact h2 hc v hv
        · exact hx
    | true =>
      simp only [Bool.not_true, Bool.false_eq_true, ite_false]
      cases cur with
      | none =>
        simp only
        apply ih (some x) (seen ++ [x])
        · intro s hs
          have hsx : s = x := (Option.some.inj hs).symm
          subst hsx
          refine ⟨hx, by simp, ?_⟩
          intro v hv hvv
          simp only [List.mem_append, List.mem_singleton] at hv
          rcases hv with hv | rfl
          · rw [h2 rfl v hv] at hvv; cases hvv
          · exact better_irrefl m _
        · intro h; cases h
      | some s =>
        simp only
        obtain ⟨a, b, c⟩ := h1 s rfl
        apply ih _ (seen ++ [x])
        · intro r hr
          have hrr : r = (if better m x s = true then x else s) := (Option.some.inj hr).symm
          subst hrr
          cases hb : better m x s with
          | true =>
            simp only [ite_true]
            refine ⟨hx, by simp, ?_⟩
            intro v hv hvv
            simp only [List.mem_append, List.mem_singleton] at hv
            rcases hv with hv | rfl
            · cases hvx : better m v x with
              | false => rfl
              | true => have := better_trans m v x s hvx hb; rw [c v hv hvv] at this; cases this
            · exact better_irrefl m _
          | false =>
            simp only [Bool.false_eq_true, ite_false]
            refine ⟨a, by simp [b], ?_⟩
            intro v hv hvv
            simp only [List.mem_append, List.mem_singleton] at hv
            rcases hv with hv | rfl
            · exact c v hv hvv
            · exact hb
        · intro h; cases h

/-- **The selected version is valid at signing time and extremal** under the configured rule (newest / oldest
    `valid_from`, ties by smaller id); if nothing is valid nothing is selected. -/
theorem selected_is_valid_and_extremal (m : Mode) (vs : List SVersion) (t : Int) :
    match select m vs t with
    | some r => r.validAt t = true ∧ r ∈ vs ∧ ∀ v ∈ vs, v.validAt t = true → better m v r = false
    | none => ∀ v ∈ vs, v.validAt t = false := by
  have := selectFrom_spec m t vs none [] (by intro s h; cases h) (by intro _ v hv; simp at hv)
  simpa [select] using this

/-- **Selection does not depend on the order in which versions are listed** (ids are unique in a compiled
    configuration): any two lists with the same members select the same version. -/
theorem selection_deterministic (m : Mode) (vs ws : List SVersion) (t : Int)
    (hids : ∀ a ∈ vs, ∀ b ∈ vs, a.id = b.id → a = b) (hperm : ∀ v, v ∈ vs ↔ v ∈ ws) :
    select m vs t = select m ws t := by
  have h1 := selected_is_valid_and_extremal m vs t
  have h2 := selected_is_valid_and_extremal m ws t
  cases hv : select m vs t with
  | none =>
    rw [hv] at h1
    cases hw : select m ws t with
    | none => rfl
    | some r => rw [hw] at h2; have := h1 r ((hperm r).mpr h2.2.1); rw [h2.1] at this; cases this
  | some r =>
    rw [hv] at h1
    cases hw : select m ws t with
    | none => rw [hw] at h2; have := h2 r ((hperm r).mp h1.2.1); rw [h1.1] at this; cases this
    | some r' =>
      rw [hw] at h2
      have hr' : r' ∈ vs := (hperm r').mpr h2.2.1
      by_cases hid : r.id = r'.id
      · rw [hids r h1.2.1 r' hr' hid]
      · rcases better_total m r r' hid with hb | hb
        · have := h2.2.2 r ((hperm r).mp h1.2.1) h1.1; rw [hb] at this; cases this
        · have := h1.2.2 r' hr' h2.1; rw [hb] at this; cases this

/-- window boundaries: `valid_from` inclusive, `valid_until` exclusive -/
theorem window_boundaries (v : SVersion) (f u : Int) (hf : v.from_ = some f) (hu : v.until_ = some u) (hlt : f < u) :
    v.validAt f = true ∧ v.validAt u = false ∧ v.validAt (f - 1) = false ∧ v.validAt (u - 1) = true := by
  simp only [SVersion.validAt, hf, hu, Bool.and_eq_true, decide_eq_true_eq, Bool.and_eq_false_iff,
    decide_eq_false_iff_not]
  omega

/-- **If no version is valid, or the secret cannot be loaded or is empty, nothing is sent.** -/
theorem none_valid_sends_nothing (mac load) (m : Mode) (vs : List SVersion) (direct : String) (now : Int)
    (method path : String) (body : Bytes) (hne : vs ≠ []) (h : ∀ v ∈ vs, v.validAt now = false) :
    sign mac load m vs direct now method path body = none := by
  unfold sign
  have hemp : vs.isEmpty = false := by cases vs <;> simp_all
  have hsel := selected_is_valid_and_extremal m vs now
  have hat : now / 1000000000 * 1000000000 + now % 1000000000 = now := Int.ediv_mul_add_emod ..
  simp only [hemp, Bool.false_eq_true, ite_false, hat]
  cases hs : select m vs now with
  | none => simp
  | some r => rw [hs] at hsel; have := h r hsel.2.1; rw [hsel.1] at this; cases this

theorem unloadable_sends_nothing (mac) (load : String → Option Bytes) (m : Mode) (vs : List SVersion) (direct : String)
    (now : Int) (method path : String) (body : Bytes) (h : ∀ r, load r = none ∨ load r = some []) :
    sign mac load m vs direct now method path body = none := by
  unfold sign
  simp only
  split
  · rfl
  · rename_i r _
    rcases h r with h | h <;> simp [h]

/-- **Headers written**: when something is sent, the timestamp header is the signing time in unix seconds and the
    signature is `hex mac(secret, canonical)` over the body handed to the deliverer, under the selected version. -/
theorem headers_written (mac load) (m : Mode) (vs : List SVersion) (direct : String) (now : Int)
    (method path : String) (body : Bytes) (ts sig : String)
    (h : sign mac load m vs direct now method path body = some (ts, sig)) :
    ts = toString (now / 1000000000) ∧
    ∃ ref key, load ref = some key ∧ key ≠ [] ∧
      sig = Sha256.toHex (mac key (canonical method path (now / 1000000000) body)) ∧
      (vs = [] → ref = direct) ∧
      (vs ≠ [] → ∃ v, select m vs now = some v ∧ v.ref = ref ∧ v.validAt now = true) := by
  unfold sign at h
  have hat : now / 1000000000 * 1000000000 + now % 1000000000 = now := Int.ediv_mul_add_emod ..
  simp only [hat] at h
  split at h
  · cases h
  · rename_i r hr
    cases hl : load r with
    | none => simp [hl] at h
    | some key =>
      simp only [hl] at h
      split at h
      · cases h
      · rename_i hk
        simp only [Option.some.injEq, Prod.mk.injEq] at h
        refine ⟨h.1.symm, r, key, hl, by intro hn; simp [hn] at hk, h.2.symm, ?_, ?_⟩
        · intro hv; simp only [hv, List.isEmpty_nil, ite_true] at hr
          split at hr <;> simp_all
        · intro hv
          have hemp : vs.isEmpty = false := by cases vs <;> simp_all
          simp only [hemp, Bool.false_eq_true, ite_false] at hr
          cases hs : select m vs now with
          | none => simp [hs] at hr
          | some v =>
            simp only [hs] at hr
            split at hr
            · cases hr
            · cases hr
              have := selected_is_valid_and_extremal m vs now
              rw [hs] at this
              exact ⟨v, rfl, rfl, this.1⟩

/-! ### non-vacuity -/
def v1 : SVersion := { id := "a", ref := "raw:k1", from_ := some 100, until_ := some 200 }
def v2 : SVersion := { id := "b", ref := "raw:k2", from_ := some 150, until_ := none }
def v3 : SVersion := { id := "0", ref := "raw:k3", from_ := some 150, until_ := none }
example : (select .newest [v1, v2, v3] 160).map (·.id) = some "0" ∧ (select .oldest [v2, v3, v1] 160).map (·.id) = some "a" ∧
    select .newest [v1, v2] 99 = none ∧ (select .newest [v1, v2] 200).map (·.id) = some "b" := by decide

end Hk.Signing
