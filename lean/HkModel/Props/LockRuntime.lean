/-
Critical sections of the runtime state a reload swaps (internal/app/run.go), over regenerated facts: C18's `every accessor
reads one configuration` and C11's authorizers.
-/
import HkModel.Props.LockScopes

namespace Hk.LockScopes
open Hk.Gen.Locks

/-- every accessor of the runtime state reads under ONE acquisition (an answer is never assembled from two lock sections),
    and the writers — the reload's swap among them — take the write lock -/
theorem runtime_state_accessors_are_single_critical_sections :
    fileOK "internal/app/run.go" ["runtimeState.updateAll", "runtimeState.applyConfig", "runtimeState.loadAuth"] [] = true := by decide +kernel

example : 25 ≤ (inFile "internal/app/run.go").length := by decide +kernel

end Hk.LockScopes
