/-
Critical sections of the nonce cache (internal/ingress/hmac.go), over regenerated facts: C09's theorems treat `look the nonce
up and remember it` as one step.
-/
import HkModel.Props.LockScopes

namespace Hk.LockScopes
open Hk.Gen.Locks

/-- looking a nonce up and remembering it, lengthening the windows at a reload, and asking whether a signed time lies below
    the floor are each one critical section under the write lock -/
theorem nonce_cache_operations_are_single_critical_sections :
    fileOK "internal/ingress/hmac.go" ["nonceCache.seenOnce", "nonceCache.extend", "nonceCache.forgotten"] [] = true := by decide +kernel

end Hk.LockScopes
