import HkModel.Model.Route
/-! C10 — ingress route resolution and channel isolation. Property theorems. -/
namespace Hk.Route
open Hk.Egress (IP)

/-- **First matching inbound route.** If `resolve` answers `rt` then `rt` is inbound, all its criteria hold and no
    earlier route in configuration order is an inbound route whose criteria all hold; if it answers nothing, no
    inbound route's criteria all hold. -/
theorem resolve_first_match (routes : List RouteCfg) (rq : Req) :
    match resolve routes rq with
    | some rt => rt.channel.servesIngress = true ∧ matchesButMethod rt rq = true ∧ matchMethods rq.method rt.methods = true ∧
        ∃ pre post, routes = pre ++ rt :: post ∧ ∀ r ∈ pre, routeMatches r rq = false
    | none => ∀ r ∈ routes, routeMatches r rq = false := by
  unfold resolve
  cases h : routes.find? (fun rt => routeMatches rt rq) with
  | none =>
    simp only
    intro r hr
    have := List.find?_eq_none.mp h r hr
    simpa using this
  | some rt =>
    simp only
    obtain ⟨hm, pre, post, heq, hpre⟩ := List.find?_eq_some_iff_append.mp h
    have hm' := hm
    simp only [routeMatches, Bool.and_eq_true] at hm'
    refine ⟨hm'.1.1, hm'.1.2, hm'.2, pre, post, heq, ?_⟩
    intro r hr
    have := hpre r hr
    simpa using this

/-- **Channel isolation.** Routes declared outbound or internal are never reachable from ingress, for any request
    and any configuration. -/
theorem non_inbound_unreachable (routes : List RouteCfg) (rq : Req) (rt : RouteCfg)
    (h : resolve routes rq = some rt) : rt.channel ≠ .outbound ∧ rt.channel ≠ .internal := by
  have := resolve_first_match routes rq
  rw [h] at this
  have hs := this.1
  constructor <;> intro hc <;> simp [hc, Channel.servesIngress] at hs

/-- the 405 Allow list never advertises a method of a non-inbound route alone: it is empty when no inbound
    route routeMatches the other criteria -/
theorem allowed_only_inbound (routes : List RouteCfg) (rq : Req)
    (h : ∀ r ∈ routes, r.channel.servesIngress = true → matchesButMethod r rq = false) :
    allowedMethods routes rq = [] := by
  unfold allowedMethods
  have : routes.filter (fun rt => rt.channel.servesIngress && matchesButMethod rt rq) = [] := by
    apply List.filter_eq_nil_iff.mpr
    intro r hr
    cases hs : r.channel.servesIngress
    · simp
    · simp [h r hr hs]
  simp [this, dedup]

/-- a request that routeMatches no route gets 404 or 405 — never a route — and (`Model/IngressFlow`) nothing is enqueued -/
theorem no_match_404_405 (routes : List RouteCfg) (rq : Req) (h : ∀ r ∈ routes, routeMatches r rq = false) :
    outcome routes rq = .notFound ∨ ∃ a, a ≠ [] ∧ outcome routes rq = .methodNotAllowed a := by
  unfold outcome
  have : resolve routes rq = none := by
    unfold resolve
    apply List.find?_eq_none.mpr
    intro r hr; simp [h r hr]
  rw [this]
  simp only
  by_cases he : (allowedMethods routes rq).isEmpty = true
  · left; simp [he]
  · right
    refine ⟨allowedMethods routes rq, ?_, by simp [he]⟩
    intro hh; rw [hh] at he; simp at he

/-- path criterion: "/" routeMatches all; otherwise equal, or a prefix ending on a segment boundary -/
theorem matchPath_iff (req route : String) (hr : route ≠ "") (hs : route ≠ "/") :
    matchPath req route = true ↔
      req = route ∨ (isPrefixOf route.toList req.toList = true ∧ req.length > route.length ∧
        req.toList.getD route.length ' ' = '/') := by
  unfold matchPath
  simp [hr, hs]
  by_cases he : req = route
  · simp [he]
  · simp [he, and_assoc]

theorem matchPath_root (req : String) : matchPath req "/" = true := by simp [matchPath]

/-- `*.domain` routeMatches sub-domains only — never the apex, only across a label boundary -/
theorem host_wildcard_subdomain_only (reqHost d : String) (hd : d ≠ "") (hne : ("*." ++ d) ≠ reqHost) :
    matchHostPattern reqHost ("*." ++ d) = true ↔
      reqHost ≠ d ∧ Hk.Egress.endsWith reqHost.toList ('.' :: d.toList) = true := by
  unfold matchHostPattern
  have h1 : (("*." ++ d) == "*") = false := by
    apply beq_false_of_ne
    intro h
    have := congrArg String.toList h
    simp at this
  have h2 : (reqHost == "*." ++ d) = false := beq_false_of_ne (fun h => hne h.symm)
  have h3 : isPrefixOf ['*', '.'] ("*." ++ d).toList = true := by simp [isPrefixOf]
  have h4 : ("*." ++ d).toList.drop 2 = d.toList := by simp
  have h5 : d.toList.isEmpty = false := by
    cases hl : d.toList with
    | nil => exact absurd (String.ext (by simpa using hl)) hd
    | cons _ _ => rfl
  simp only [h1, h2, h3, h4, h5, Bool.false_or, Bool.true_and, Bool.and_eq_true, Bool.not_eq_true',
    beq_eq_false_iff_ne, ne_eq]
  constructor
  · rintro ⟨ha, hb⟩; exact ⟨fun h => ha (by rw [h]), hb⟩
  · rintro ⟨ha, hb⟩; exact ⟨fun h => ha (String.ext h), hb⟩

/-- methods: POST when none declared, exact (case-sensitive) membership otherwise -/
theorem matchMethods_default (m : String) : matchMethods m [] = true ↔ m = "POST" := by
  unfold matchMethods
  by_cases h : m = "" <;> simp [h]

/-! ### the pinned tree violates channel isolation and the port/dot normalisation (witnesses) -/

def demoReq : Req := { path := "/jobs", method := "POST", host := "example.com", headers := [], query := [], remote := none }

/-- pinned resolver: an outbound route (which may not declare auth) is returned for a plain POST -/
theorem pinned_outbound_reachable :
    (resolvePinned [{ channel := .outbound, path := "/jobs" }] demoReq).isSome = true ∧
    resolve [{ channel := .outbound, path := "/jobs" }] demoReq = none := by decide

/-- pinned normaliser: `example.com.:8080` keeps its dot and no longer equals `example.com` -/
theorem pinned_dot_port :
    normalizeHostPinned "example.com.:8080" = "example.com." ∧ normalizeHost "example.com.:8080" = "example.com" ∧
    normalizeHost "Example.COM:8080." = "example.com" ∧ normalizeHost "example.com." = "example.com" := by decide

/-! ### non-vacuity -/
example : (resolve [{ channel := .internal, path := "/a" }, { path := "/a", hosts := ["*.example.com"] }, { path := "/" }]
    { demoReq with path := "/a/b", host := "API.Example.com:443" }).map (·.hosts) = some ["*.example.com"] := by decide
example : outcome [{ path := "/a", methods := ["PUT"] }] { demoReq with path := "/a" } = .methodNotAllowed ["PUT"] := by decide

end Hk.Route
