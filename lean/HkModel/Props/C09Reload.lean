import HkModel.Model.IngressReload
import HkModel.Props.C08
/-! C09 — replay protection across configuration reloads that change the tolerance. Property theorems. -/
namespace Hk.IngressAuth
open Hk.Egress (trimWS)

variable (mac : Bytes → Bytes → Bytes)

/-! ### what the pieces do -/

/-- a timestamp that passes `timeOK` is the signed time, and (positive tolerance) lies within the window -/
theorem timeOK_some (cfg : HmacCfg) (now : Int) (rq : HReq) (t : Int) (h : timeOK cfg now rq = some t) :
    signedAt rq = some t ∧ (0 < cfg.tol → now - t ≤ cfg.tol ∧ -cfg.tol ≤ now - t) := by
  unfold timeOK at h
  split at h
  · cases h
  · cases hp : parseInt64 (trimWS rq.ts) with
    | none => simp [hp] at h
    | some n =>
      simp only [hp] at h
      split at h
      · cases h
      · rename_i hc
        cases h
        refine ⟨by simp [signedAt, hp], ?_⟩
        intro htol
        simp only [Bool.and_eq_true, decide_eq_true_eq, Bool.or_eq_true, not_and, not_or, not_lt] at hc
        have := hc htol
        omega

theorem verifyR_none (cfg : HmacCfg) (s : AuthState) (now : Int) (rq : HReq)
    (h : timeOK { cfg with tol := s.tol } now rq = none) : verifyR mac cfg s now rq = (s, false) := by
  unfold verifyR; rw [h]

theorem verifyR_floor (cfg : HmacCfg) (s : AuthState) (now : Int) (rq : HReq) (t : Int)
    (h : timeOK { cfg with tol := s.tol } now rq = some t) (hb : belowFloor s t = true) :
    verifyR mac cfg s now rq = (s, false) := by
  unfold verifyR; rw [h]
  simp only [hb, if_true]

theorem verifyR_pass (cfg : HmacCfg) (s : AuthState) (now : Int) (rq : HReq) (t : Int)
    (h : timeOK { cfg with tol := s.tol } now rq = some t) (hb : belowFloor s t = false) :
    verifyR mac cfg s now rq =
      ({ s with cache := (seenOnce s.cache now (trimWS rq.nonce) (t + s.tol)).1 },
       (seenOnce s.cache now (trimWS rq.nonce) (t + s.tol)).2 && sigOK mac { cfg with tol := s.tol } t rq) := by
  unfold verifyR; rw [h]
  simp only [hb]
  rfl

/-- **a request signed before the floor is refused** -/
theorem floor_rejects (cfg : HmacCfg) (s : AuthState) (now : Int) (rq : HReq) (t : Int)
    (h : timeOK { cfg with tol := s.tol } now rq = some t) (hb : belowFloor s t = true) :
    (verifyR mac cfg s now rq).2 = false := by
  rw [verifyR_floor mac cfg s now rq t h hb]

/-- a reload that does not raise the tolerance changes nothing but the tolerance -/
theorem reload_lower_keeps_everything (s : AuthState) (now tol' : Int) (h : tol' ≤ s.tol) :
    reloadR s now tol' = { s with tol := tol' } := by
  unfold reloadR
  split
  · omega
  · rfl

/-- a reload that raises the tolerance: every remembered window grows by the difference, and the floor is at least
    `now - previous tolerance` and at least the previous floor -/
theorem reload_raise_sets_floor (s : AuthState) (now tol' : Int) (h : s.tol < tol') :
    (reloadR s now tol').tol = tol' ∧
    (reloadR s now tol').cache = s.cache.map (fun e => (e.1, e.2 + (tol' - s.tol))) ∧
    ∃ f, (reloadR s now tol').floor = some f ∧ now - s.tol ≤ f ∧ ∀ g, s.floor = some g → g ≤ f := by
  unfold reloadR
  simp only [gt_iff_lt, h, if_true, true_and]
  cases hf : s.floor with
  | none => exact ⟨now - s.tol, rfl, Int.le_refl _, by intro g hg; cases hg⟩
  | some f0 =>
    refine ⟨max f0 (now - s.tol), rfl, by omega, ?_⟩
    intro g hg; cases hg; omega

/-! ### the invariant: an accepted pair (nonce, signed time) stays shut out -/

/-- `(N, ts)` is shut out in state `s` for every arrival time `≥ t` -/
structure Shut (N : String) (ts : Int) (s : AuthState) (t : Int) : Prop where
  pos : 0 < s.tol
  why : (∃ e ∈ s.cache, e.1 = N ∧ ts + s.tol ≤ e.2) ∨ ts + s.tol < t ∨ (∃ f, s.floor = some f ∧ ts < f)

/-- a shut-out pair is rejected at every later instant -/
theorem shut_rejects (cfg : HmacCfg) (N : String) (ts : Int) (s : AuthState) (t now : Int) (rq : HReq)
    (h : Shut N ts s t) (hnow : t ≤ now) (hN : trimWS rq.nonce = N) (hts : signedAt rq = some ts) :
    (verifyR mac cfg s now rq).2 = false := by
  cases ht : timeOK { cfg with tol := s.tol } now rq with
  | none => rw [verifyR_none mac cfg s now rq ht]
  | some t' =>
    obtain ⟨hs, hwin⟩ := timeOK_some _ now rq t' ht
    have hEq : t' = ts := by rw [hs] at hts; exact Option.some.inj hts
    subst hEq
    have hwin : now - t' ≤ s.tol ∧ -s.tol ≤ now - t' := hwin h.pos
    cases hb : belowFloor s t' with
    | true => exact floor_rejects mac cfg s now rq t' ht hb
    | false =>
      rw [verifyR_pass mac cfg s now rq t' ht hb]
      rcases h.why with ⟨e, he, he1, he2⟩ | hB | ⟨f, hf, hlt⟩
      · have hl : now ≤ e.2 := by omega
        have := seenOnce_rejects_live s.cache now (trimWS rq.nonce) (t' + s.tol) ⟨e, he, by rw [he1, hN], hl⟩
        simp [this]
      · omega
      · exfalso
        have : belowFloor s t' = true := by simp [belowFloor, hf, hlt]
        rw [this] at hb; cases hb

/-- a request event keeps the pair shut out -/
theorem shut_verify (cfg : HmacCfg) (N : String) (ts : Int) (s : AuthState) (t now : Int) (rq : HReq)
    (h : Shut N ts s t) (hnow : t ≤ now) : Shut N ts (verifyR mac cfg s now rq).1 now := by
  have hsame : Shut N ts s now := by
    refine ⟨h.pos, ?_⟩
    rcases h.why with hA | hB | hC
    · exact Or.inl hA
    · exact Or.inr (Or.inl (by omega))
    · exact Or.inr (Or.inr hC)
  cases ht : timeOK { cfg with tol := s.tol } now rq with
  | none => rw [verifyR_none mac cfg s now rq ht]; exact hsame
  | some t' =>
    cases hb : belowFloor s t' with
    | true => rw [verifyR_floor mac cfg s now rq t' ht hb]; exact hsame
    | false =>
      rw [verifyR_pass mac cfg s now rq t' ht hb]
      refine ⟨h.pos, ?_⟩
      rcases h.why with ⟨e, he, he1, he2⟩ | hB | hC
      · by_cases hl : now ≤ e.2
        · exact Or.inl ⟨e, seenOnce_keeps_live s.cache now _ _ e he hl, he1, he2⟩
        · exact Or.inr (Or.inl (by show ts + s.tol < now; omega))
      · exact Or.inr (Or.inl (by show ts + s.tol < now; omega))
      · exact Or.inr (Or.inr hC)

/-- a reload (to any positive tolerance) keeps the pair shut out -/
theorem shut_reload (N : String) (ts : Int) (s : AuthState) (t now tol' : Int)
    (h : Shut N ts s t) (hnow : t ≤ now) (hpos : 0 < tol') : Shut N ts (reloadR s now tol') now := by
  by_cases hle : tol' ≤ s.tol
  · rw [reload_lower_keeps_everything s now tol' hle]
    refine ⟨hpos, ?_⟩
    rcases h.why with ⟨e, he, he1, he2⟩ | hB | hC
    · exact Or.inl ⟨e, he, he1, by show ts + tol' ≤ e.2; omega⟩
    · exact Or.inr (Or.inl (by show ts + tol' < now; omega))
    · exact Or.inr (Or.inr hC)
  · have hlt : s.tol < tol' := by omega
    obtain ⟨h1, h3, f, h4, h5, h6⟩ := reload_raise_sets_floor s now tol' hlt
    refine ⟨by rw [h1]; exact hpos, ?_⟩
    rw [h1, h3, h4]
    rcases h.why with ⟨e, he, he1, he2⟩ | hB | ⟨g, hg, hgl⟩
    · refine Or.inl ⟨(e.1, e.2 + (tol' - s.tol)), List.mem_map.mpr ⟨e, he, rfl⟩, he1, ?_⟩
      show ts + tol' ≤ e.2 + (tol' - s.tol); omega
    · exact Or.inr (Or.inr ⟨f, rfl, by omega⟩)
    · exact Or.inr (Or.inr ⟨f, rfl, by have := h6 g hg; omega⟩)

/-- an accepted request shuts its own pair out -/
theorem accepted_shut (cfg : HmacCfg) (s : AuthState) (now : Int) (rq : HReq) (hpos : 0 < s.tol)
    (h : (verifyR mac cfg s now rq).2 = true) :
    ∃ ts, signedAt rq = some ts ∧ Shut (trimWS rq.nonce) ts (verifyR mac cfg s now rq).1 now := by
  cases ht : timeOK { cfg with tol := s.tol } now rq with
  | none => rw [verifyR_none mac cfg s now rq ht] at h; cases h
  | some t' =>
    cases hb : belowFloor s t' with
    | true => rw [verifyR_floor mac cfg s now rq t' ht hb] at h; cases h
    | false =>
      obtain ⟨hs, hwin⟩ := timeOK_some _ now rq t' ht
      have hwin : now - t' ≤ s.tol ∧ -s.tol ≤ now - t' := hwin hpos
      rw [verifyR_pass mac cfg s now rq t' ht hb] at h ⊢
      refine ⟨t', hs, hpos, Or.inl ?_⟩
      have hfresh : (seenOnce s.cache now (trimWS rq.nonce) (t' + s.tol)).2 = true := by
        simp only [Bool.and_eq_true] at h; exact h.1
      refine ⟨(trimWS rq.nonce, t' + s.tol), ?_, rfl, Int.le_refl _⟩
      show (trimWS rq.nonce, t' + s.tol) ∈ (seenOnce s.cache now (trimWS rq.nonce) (t' + s.tol)).1
      unfold seenOnce at hfresh ⊢
      simp only at hfresh ⊢
      split
      · rename_i hany; simp [hany] at hfresh
      · exact List.mem_cons_self

/-! ### histories -/

theorem runR_cons (cfg : HmacCfg) (s : AuthState) (e : REv) (rest : List REv) :
    runR mac cfg s (e :: rest) = (e, (stepR mac cfg s e).2) :: runR mac cfg (stepR mac cfg s e).1 rest := rfl

/-- the tolerance stays positive along a history whose reloads set positive tolerances -/
theorem stepR_pos (cfg : HmacCfg) (s : AuthState) (e : REv) (rest : List REv) (hpos : 0 < s.tol)
    (htp : TolPos (e :: rest)) : 0 < (stepR mac cfg s e).1.tol ∧ TolPos rest := by
  cases e with
  | request now rq =>
    refine ⟨?_, htp⟩
    show 0 < (verifyR mac cfg s now rq).1.tol
    cases ht : timeOK { cfg with tol := s.tol } now rq with
    | none => rw [verifyR_none mac cfg s now rq ht]; exact hpos
    | some t' =>
      cases hb : belowFloor s t' with
      | true => rw [verifyR_floor mac cfg s now rq t' ht hb]; exact hpos
      | false => rw [verifyR_pass mac cfg s now rq t' ht hb]; exact hpos
  | reload now tol' =>
    refine ⟨?_, htp.2⟩
    show 0 < (reloadR s now tol').tol
    have h0 : 0 < tol' := htp.1
    unfold reloadR
    split <;> exact h0

/-- once a pair is shut out, no later request carrying it is accepted — whatever requests and reloads follow -/
theorem shut_run (cfg : HmacCfg) (N : String) (ts : Int) :
    ∀ (evs : List REv) (s : AuthState) (t : Int), Shut N ts s t → MonoR t evs → TolPos evs →
      ∀ p ∈ runR mac cfg s evs, ∀ n rq, p = (REv.request n rq, true) → trimWS rq.nonce = N →
        signedAt rq = some ts → False := by
  intro evs
  induction evs with
  | nil => intro _ _ _ _ _ p hp; simp [runR] at hp
  | cons e rest ih =>
    intro s t hsh hmono htp p hp n rq hpe hN hts
    rw [runR_cons] at hp
    cases e with
    | request now rq0 =>
      have hnow : t ≤ now := hmono.1
      rcases List.mem_cons.mp hp with hhead | htail
      · rw [hpe] at hhead
        have h1 : rq = rq0 := by injection hhead with h1 _; injection h1 with _ h1
        have h2 : true = (verifyR mac cfg s now rq0).2 := by injection hhead
        subst h1
        have := shut_rejects mac cfg N ts s t now rq hsh hnow hN hts
        rw [this] at h2; cases h2
      · exact ih _ now (shut_verify mac cfg N ts s t now rq0 hsh hnow) hmono.2 htp p htail n rq hpe hN hts
    | reload now tol' =>
      have hnow : t ≤ now := hmono.1
      rcases List.mem_cons.mp hp with hhead | htail
      · rw [hpe] at hhead
        injection hhead with h1 _; cases h1
      · exact ih _ now (shut_reload N ts s t now tol' hsh hnow htp.1) hmono.2 htp.2 p htail n rq hpe hN hts

/-- the general form: from ANY state with a positive tolerance (fresh or not), no two different positions of a
    history are accepted requests with the same nonce and the same signed time -/
theorem never_accepted_twice_from (cfg : HmacCfg) :
    ∀ (evs : List REv) (s : AuthState) (t0 : Int), 0 < s.tol → MonoR t0 evs → TolPos evs →
      ∀ (i j : Nat), i < j → ∀ n1 rq1 n2 rq2,
        (runR mac cfg s evs)[i]? = some (REv.request n1 rq1, true) →
        (runR mac cfg s evs)[j]? = some (REv.request n2 rq2, true) →
        trimWS rq1.nonce = trimWS rq2.nonce → signedAt rq1 = signedAt rq2 → False := by
  intro evs
  induction evs with
  | nil => intro _ _ _ _ _ i j _ n1 rq1 _ _ h1; simp [runR] at h1
  | cons e rest ih =>
    intro s t0 hpos hmono htp i j hij n1 rq1 n2 rq2 h1 h2 hN hT
    rw [runR_cons] at h1 h2
    obtain ⟨hpos', htp'⟩ := stepR_pos mac cfg s e rest hpos htp
    cases j with
    | zero => omega
    | succ j' =>
      rw [List.getElem?_cons_succ] at h2
      cases i with
      | zero =>
        rw [List.getElem?_cons_zero] at h1
        have h1 := Option.some.inj h1
        have he : e = REv.request n1 rq1 := by injection h1
        have hok : (stepR mac cfg s e).2 = true := by injection h1
        subst he
        have hok' : (verifyR mac cfg s n1 rq1).2 = true := hok
        obtain ⟨ts, hts, hsh⟩ := accepted_shut mac cfg s n1 rq1 hpos hok'
        have hmem := List.mem_of_getElem? h2
        exact shut_run mac cfg (trimWS rq1.nonce) ts rest _ n1 hsh hmono.2 htp' _ hmem n2 rq2 rfl hN.symm
          (by rw [← hT]; exact hts)
      | succ i' =>
        rw [List.getElem?_cons_succ] at h1
        exact ih _ e.now hpos' hmono.2 htp' i' j' (by omega) n1 rq1 n2 rq2 h1 h2 hN hT

/-- **A captured request is never accepted twice, whatever reloads happen.** In every history of one route's
    authenticator — any interleaving of requests (valid, invalid, duplicates, other nonces) and of reloads that raise
    or lower the tolerance, arbitrarily often — with a clock that never goes back: two different positions are never
    both accepted requests carrying the same nonce and the same signed time. In particular a verbatim replay of an
    accepted request is never accepted, at any later instant. -/
theorem captured_request_never_accepted_twice (cfg : HmacCfg) (s0 : AuthState) (evs : List REv) (t0 : Int)
    (_hfresh : s0.cache = [] ∧ s0.floor = none) (htol : 0 < s0.tol)
    (hmono : MonoR t0 evs) (hpos : TolPos evs) :
    ∀ i j (hi : i < (runR mac cfg s0 evs).length) (hj : j < (runR mac cfg s0 evs).length), i < j →
      ∀ n1 rq1 n2 rq2, (runR mac cfg s0 evs)[i] = (REv.request n1 rq1, true) →
        (runR mac cfg s0 evs)[j] = (REv.request n2 rq2, true) →
        trimWS rq1.nonce = trimWS rq2.nonce → signedAt rq1 = signedAt rq2 → False := by
  intro i j hi hj hij n1 rq1 n2 rq2 h1 h2 hN hT
  exact never_accepted_twice_from mac cfg evs s0 t0 htol hmono hpos i j hij n1 rq1 n2 rq2
    (by rw [List.getElem?_eq_getElem hi, h1]) (by rw [List.getElem?_eq_getElem hj, h2]) hN hT

/-- a verbatim replay: the same request object again, at any later position -/
theorem verbatim_replay_never_accepted (cfg : HmacCfg) (s0 : AuthState) (evs : List REv) (t0 : Int)
    (htol : 0 < s0.tol) (hmono : MonoR t0 evs) (hpos : TolPos evs) (i j : Nat) (hij : i < j) (n1 n2 : Int) (rq : HReq)
    (h1 : (runR mac cfg s0 evs)[i]? = some (REv.request n1 rq, true)) :
    (runR mac cfg s0 evs)[j]? ≠ some (REv.request n2 rq, true) := by
  intro h2
  exact never_accepted_twice_from mac cfg evs s0 t0 htol hmono hpos i j hij n1 rq n2 rq h1 h2 rfl rfl

/-! ### witness: the pinned reload (windows lengthened, no floor) re-admits a captured request -/

def stepRPinned (mac : Bytes → Bytes → Bytes) (cfg : HmacCfg) (s : AuthState) : REv → AuthState × Bool
  | .request now rq => verifyR mac cfg s now rq
  | .reload now tol' => (reloadRPinned s now tol', false)

/-- `runR` with the pinned (pre-repair) reload -/
def runRPinned (mac : Bytes → Bytes → Bytes) (cfg : HmacCfg) : AuthState → List REv → List (REv × Bool)
  | _, [] => []
  | s, e :: rest => let (s', ok) := stepRPinned mac cfg s e; (e, ok) :: runRPinned mac cfg s' rest

/-- a keyed function that always answers `01` -/
def wMac : Bytes → Bytes → Bytes := fun _ _ => [1]
/-- one direct secret, tolerance 60 s -/
def wCfg : HmacCfg := { tol := 60000000000, direct := [[7]] }
def wS0 : AuthState := { tol := 60000000000 }
/-- the captured request: signed at 1000 s, signature header `01` -/
def wCaptured : HReq :=
  { sig := "01", ts := "1000", nonce := "n-captured", method := "POST", path := "/hook", body := [] }
/-- an unrelated request signed at 1061 s -/
def wOther : HReq :=
  { sig := "01", ts := "1061", nonce := "n-other", method := "POST", path := "/hook", body := [] }
/-- accepted at its signed time; 61 s later an unrelated request purges the closed window; a reload raises the
    tolerance from 60 s to 300 s; the captured request is replayed 62 s after it was signed -/
def wHistory : List REv :=
  [ .request 1000000000000 wCaptured,
    .request 1061000000000 wOther,
    .reload  1061500000000 300000000000,
    .request 1062000000000 wCaptured ]

/-- **without the floor the replay is accepted** (positions 0 and 3 are the same request, both accepted) … -/
theorem pinned_raise_readmits :
    (runRPinned wMac wCfg wS0 wHistory).map (·.2) = [true, true, false, true] := by decide

/-- … **with the floor it is refused** -/
theorem floor_refuses_after_raise :
    (runR wMac wCfg wS0 wHistory).map (·.2) = [true, true, false, false] := by decide

/-- so the pinned history has exactly the shape `captured_request_never_accepted_twice` excludes -/
example : ∃ n1 n2, (runRPinned wMac wCfg wS0 wHistory)[0]? = some (REv.request n1 wCaptured, true) ∧
    (runRPinned wMac wCfg wS0 wHistory)[3]? = some (REv.request n2 wCaptured, true) :=
  ⟨1000000000000, 1062000000000, by rfl, by rfl⟩

/-! ### non-vacuity: the hypotheses of the main theorem hold for a history with accepted requests, a closed window,
    a raising reload and a replay -/
example : (wS0.cache = [] ∧ wS0.floor = none) ∧ 0 < wS0.tol ∧ MonoR 0 wHistory ∧ TolPos wHistory ∧
    (∃ n, (runR wMac wCfg wS0 wHistory)[0]? = some (REv.request n wCaptured, true)) ∧
    (∃ n, (runR wMac wCfg wS0 wHistory)[3]? = some (REv.request n wCaptured, false)) := by
  refine ⟨⟨rfl, rfl⟩, by decide, ?_, ?_, ⟨1000000000000, by rfl⟩, ⟨1062000000000, by rfl⟩⟩
  · simp [wHistory, MonoR, REv.now]
  · simp [wHistory, TolPos]

/-- lowering and raising again: 60 s → 10 s → 300 s, replay still refused -/
example : (runR wMac wCfg wS0
    [ .request 1000000000000 wCaptured, .reload 1005000000000 10000000000, .request 1011000000000 wOther,
      .reload 1012000000000 300000000000, .request 1013000000000 wCaptured ]).map (·.2)
    = [true, false, false, false, false] := by decide

end Hk.IngressAuth

#print axioms Hk.IngressAuth.timeOK_some
#print axioms Hk.IngressAuth.floor_rejects
#print axioms Hk.IngressAuth.reload_lower_keeps_everything
#print axioms Hk.IngressAuth.reload_raise_sets_floor
#print axioms Hk.IngressAuth.shut_rejects
#print axioms Hk.IngressAuth.shut_verify
#print axioms Hk.IngressAuth.shut_reload
#print axioms Hk.IngressAuth.accepted_shut
#print axioms Hk.IngressAuth.stepR_pos
#print axioms Hk.IngressAuth.shut_run
#print axioms Hk.IngressAuth.never_accepted_twice_from
#print axioms Hk.IngressAuth.captured_request_never_accepted_twice
#print axioms Hk.IngressAuth.verbatim_replay_never_accepted
#print axioms Hk.IngressAuth.pinned_raise_readmits
#print axioms Hk.IngressAuth.floor_refuses_after_raise
