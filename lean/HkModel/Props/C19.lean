import HkModel.Model.Lex
/-!
  C19 — config lexer / value-quoting round trip, for ALL inputs (unbounded strings).
  Whatever `formatValue` writes for a value the lexer can produce lexes back to exactly one token with exactly that text.
-/
namespace Hk.Lex

/-! ## character facts -/

theorem isDelim_of_isSpace {c : Char} (h : isSpace c = true) : isDelim c = true := by
  simp [isDelim, h]

theorem isSpace_of_not_delim {c : Char} (h : isDelim c = false) : isSpace c = false := by
  cases hs : isSpace c
  · rfl
  · rw [isDelim_of_isSpace hs] at h; cases h

theorem not_delim_ne {c : Char} (h : isDelim c = false) :
    isSpace c = false ∧ c ≠ '{' ∧ c ≠ '}' ∧ c ≠ '"' ∧ c ≠ '#' := by
  simp only [isDelim, Bool.or_eq_false_iff, beq_eq_false_iff_ne] at h
  exact ⟨h.1.1.1.1, h.1.1.1.2, h.1.1.2, h.1.2, h.2⟩

/-! ## the pieces consume input -/

theorem scanPlaceholder_spec : ∀ (cs p r : List Char), scanPlaceholder cs = some (p, r) →
    ∃ body, p = body ++ ['}'] ∧ cs = body ++ '}' :: r ∧ ∀ c ∈ body, isSpace c = false ∧ c ≠ '{' ∧ c ≠ '}'
  | [], p, r, h => by simp [scanPlaceholder] at h
  | c :: cs, p, r, h => by
    unfold scanPlaceholder at h
    by_cases h1 : (isSpace c || c == '{') = true
    · simp [h1] at h
    · by_cases h2 : c = '}'
      · subst h2
        simp at h
        refine ⟨[], ?_⟩
        simp [h.1.symm, h.2.symm]
      · have h2' : (c == '}') = false := by simp [h2]
        simp only [h1, h2', Bool.false_eq_true, ite_false] at h
        cases hs : scanPlaceholder cs with
        | none => simp [hs] at h
        | some pr =>
          obtain ⟨p', r'⟩ := pr
          simp only [hs, Option.some.injEq, Prod.mk.injEq] at h
          obtain ⟨body, hp, hcs, hb⟩ := scanPlaceholder_spec cs p' r' hs
          refine ⟨c :: body, ?_, ?_, ?_⟩
          · simp [← h.1, hp]
          · simp [hcs, h.2]
          · intro x hx
            rcases List.mem_cons.mp hx with rfl | hx
            · simp only [Bool.or_eq_true, beq_iff_eq, not_or, Bool.not_eq_true] at h1
              exact ⟨h1.1, h1.2, h2⟩
            · exact hb x hx

theorem scanPlaceholder_body : ∀ (body r : List Char),
    (∀ c ∈ body, isSpace c = false ∧ c ≠ '{' ∧ c ≠ '}') →
    scanPlaceholder (body ++ '}' :: r) = some (body ++ ['}'], r)
  | [], r, _ => by simp [scanPlaceholder, isSpace]
  | c :: body, r, h => by
    have hc := h c (List.mem_cons_self ..)
    have ih := scanPlaceholder_body body r (fun x hx => h x (List.mem_cons_of_mem _ hx))
    simp [scanPlaceholder, hc.1, hc.2.1, hc.2.2, ih]

/-- a prefix that does not contain `x` and fits into `b ++ x :: r` already fits into `b` -/
theorem isPrefixOf_of_append_sep (x : Char) : ∀ (l b r : List Char), x ∉ l →
    l.isPrefixOf (b ++ x :: r) = true → l.isPrefixOf b = true
  | [], _, _, _, _ => by simp
  | a :: l, [], r, hx, h => by
    simp only [List.nil_append, List.isPrefixOf, Bool.and_eq_true, beq_iff_eq] at h
    exact absurd h.1.symm (fun e => hx (e ▸ List.mem_cons_self ..))
  | a :: l, b0 :: b, r, hx, h => by
    simp only [List.cons_append, List.isPrefixOf, Bool.and_eq_true, beq_iff_eq] at h ⊢
    exact ⟨h.1, isPrefixOf_of_append_sep x l b r (fun hm => hx (List.mem_cons_of_mem _ hm)) h.2⟩

theorem isPrefixOf_append_right : ∀ (l b r : List Char), l.isPrefixOf b = true → l.isPrefixOf (b ++ r) = true
  | [], _, _, _ => by simp
  | a :: l, [], r, h => by simp [List.isPrefixOf] at h
  | a :: l, b0 :: b, r, h => by
    simp only [List.cons_append, List.isPrefixOf, Bool.and_eq_true, beq_iff_eq] at h ⊢
    exact ⟨h.1, isPrefixOf_append_right l b r h.2⟩

/-- the placeholder-prefix test only looks at text before the first `x`, for any `x` not occurring in the three
    prefixes (a space, a `}`) -/
theorem isPlaceholderPrefix_append_sep (x : Char) (hx1 : x ≠ '{') (hx2 : x ∉ ['$', 'e', 'n', 'v', '.', 'f', 'i', 'l'])
    (b r : List Char) : isPlaceholderPrefix (b ++ x :: r) = isPlaceholderPrefix b := by
  have hx2 : x ≠ '$' ∧ x ≠ 'e' ∧ x ≠ 'n' ∧ x ≠ 'v' ∧ x ≠ '.' ∧ x ≠ 'f' ∧ x ≠ 'i' ∧ x ≠ 'l' := by
    simpa using hx2
  obtain ⟨h1, h2, h3, h4, h5, h6, h7, h8⟩ := hx2
  have key : ∀ l : List Char, x ∉ l → l.isPrefixOf (b ++ x :: r) = l.isPrefixOf b := by
    intro l hl
    cases h : l.isPrefixOf b
    · cases h' : l.isPrefixOf (b ++ x :: r)
      · rfl
      · rw [isPrefixOf_of_append_sep x l b r hl h'] at h; cases h
    · exact isPrefixOf_append_right l b _ h
  unfold isPlaceholderPrefix
  rw [key, key, key] <;> simp [*]

theorem isPlaceholderPrefix_head {cs : List Char} (h : isPlaceholderPrefix cs = true) :
    ∃ rest, cs = '{' :: rest := by
  cases cs with
  | nil => simp [isPlaceholderPrefix, List.isPrefixOf] at h
  | cons c rest =>
    simp only [isPlaceholderPrefix, List.isPrefixOf, Bool.or_eq_true, Bool.and_eq_true, beq_iff_eq] at h
    rcases h with (h | h) | h <;> exact ⟨rest, by rw [h.1]⟩

/-- **`readPlaceholder` characterised**: it succeeds exactly on `{` body `}` rest with a placeholder prefix and a body
    free of spaces and braces. -/
theorem readPlaceholder_eq_some_iff (cs p r : List Char) :
    readPlaceholder cs = some (p, r) ↔
      isPlaceholderPrefix cs = true ∧ ∃ body, p = '{' :: body ++ ['}'] ∧ cs = '{' :: body ++ '}' :: r ∧
        ∀ c ∈ body, isSpace c = false ∧ c ≠ '{' ∧ c ≠ '}' := by
  constructor
  · intro h
    unfold readPlaceholder at h
    by_cases hp : isPlaceholderPrefix cs = true
    · obtain ⟨rest, rfl⟩ := isPlaceholderPrefix_head hp
      simp only [hp, ite_true] at h
      cases hs : scanPlaceholder rest with
      | none => simp [hs] at h
      | some pr =>
        obtain ⟨p', r'⟩ := pr
        simp only [hs, Option.some.injEq, Prod.mk.injEq] at h
        obtain ⟨body, hp', hcs, hb⟩ := scanPlaceholder_spec rest p' r' hs
        refine ⟨hp, body, ?_, ?_, hb⟩
        · simp [← h.1, hp']
        · simp [hcs, h.2]
    · simp [hp] at h
  · rintro ⟨hp, body, rfl, rfl, hb⟩
    unfold readPlaceholder
    rw [if_pos hp]
    simp only [List.cons_append]
    rw [scanPlaceholder_body body r hb]

theorem readPlaceholder_append {cs p r : List Char} (h : readPlaceholder cs = some (p, r)) : p ++ r = cs := by
  obtain ⟨_, body, rfl, rfl, _⟩ := (readPlaceholder_eq_some_iff cs p r).mp h
  simp

/-- a recognised placeholder is itself a complete placeholder -/
theorem readPlaceholder_self {cs p r : List Char} (h : readPlaceholder cs = some (p, r)) :
    readPlaceholder p = some (p, []) := by
  obtain ⟨hp, body, rfl, rfl, hb⟩ := (readPlaceholder_eq_some_iff cs p r).mp h
  refine (readPlaceholder_eq_some_iff _ _ _).mpr ⟨?_, body, rfl, rfl, hb⟩
  have e1 : ('{' :: body ++ '}' :: r) = ('{' :: body) ++ '}' :: r := by simp
  have e2 : ('{' :: body ++ ['}']) = ('{' :: body) ++ '}' :: [] := by simp
  rw [e1, isPlaceholderPrefix_append_sep '}' (by decide) (by decide)] at hp
  rw [e2, isPlaceholderPrefix_append_sep '}' (by decide) (by decide)]
  exact hp

/-! ## `readString` -/

/-- `readString` consumes at least the closing quote, and what it leaves is a suffix: `cs = consumed ++ r` -/
theorem readString_length : ∀ (n : Nat) (cs s r : List Char), cs.length ≤ n → readString cs = .ok (s, r) →
    r.length < cs.length
  | _, [], _, _, _, h => by simp [readString] at h
  | 0, _ :: _, _, _, hn, _ => by simp at hn
  | n + 1, c :: cs, s, r, hn, h => by
    unfold readString at h
    split at h
    · cases h
    · split at h
      · simp only [Except.ok.injEq, Prod.mk.injEq] at h
        simp [h.2]
      · split at h
        · split at h
          · cases h
          · rename_i e cs'
            cases hr : readString cs' with
            | error err => simp [hr] at h
            | ok sr =>
              obtain ⟨s', r'⟩ := sr
              simp only [hr, Except.ok.injEq, Prod.mk.injEq] at h
              have := readString_length n cs' s' r' (by simp at hn; omega) hr
              simp only [List.length_cons]
              rw [← h.2]; omega
        · cases hr : readString cs with
          | error err => simp [hr] at h
          | ok sr =>
            obtain ⟨s', r'⟩ := sr
            simp only [hr, Except.ok.injEq, Prod.mk.injEq] at h
            have := readString_length n cs s' r' (by simp at hn; omega) hr
            simp only [List.length_cons]
            rw [← h.2]; omega

/-- `readString` never looks past the closing quote -/
theorem readString_append (x : List Char) : ∀ (n : Nat) (cs s r : List Char), cs.length ≤ n →
    readString cs = .ok (s, r) → readString (cs ++ x) = .ok (s, r ++ x)
  | _, [], _, _, _, h => by simp [readString] at h
  | 0, _ :: _, _, _, hn, _ => by simp at hn
  | n + 1, c :: cs, s, r, hn, h => by
    unfold readString at h
    rw [List.cons_append]
    unfold readString
    split at h
    · cases h
    · rename_i h1
      rw [if_neg h1]
      split at h
      · rename_i h2
        simp only [Except.ok.injEq, Prod.mk.injEq] at h
        rw [if_pos h2, ← h.1, ← h.2]
      · rename_i h2
        rw [if_neg h2]
        split at h
        · rename_i h3
          rw [if_pos h3]
          split at h
          · cases h
          · rename_i e cs'
            cases hr : readString cs' with
            | error err => simp [hr] at h
            | ok sr =>
              obtain ⟨s', r'⟩ := sr
              simp only [hr, Except.ok.injEq, Prod.mk.injEq] at h
              have ih := readString_append x n cs' s' r' (by simp at hn; omega) hr
              simp only [List.cons_append, ih, ← h.1, ← h.2]
        · rename_i h3
          rw [if_neg h3]
          cases hr : readString cs with
          | error err => simp [hr] at h
          | ok sr =>
            obtain ⟨s', r'⟩ := sr
            simp only [hr, Except.ok.injEq, Prod.mk.injEq] at h
            have ih := readString_append x n cs s' r' (by simp at hn; omega) hr
            simp only [ih, ← h.1, ← h.2]

theorem readString_escapeChar (c : Char) (rest s r : List Char) (h : readString rest = .ok (s, r)) :
    readString (escapeChar c ++ rest) = .ok (c :: s, r) := by
  unfold escapeChar
  by_cases h1 : c = '\\'
  · subst h1; simp [readString, unescape, h]
  by_cases h2 : c = '"'
  · subst h2; simp [readString, unescape, h]
  by_cases h3 : c = '\n'
  · subst h3; simp [readString, unescape, h]
  by_cases h4 : c = '\t'
  · subst h4; simp [readString, unescape, h]
  by_cases h5 : c = '\r'
  · subst h5; simp [readString, unescape, h]
  simp only [beq_iff_eq, h1, h2, h3, h4, h5, ite_false, List.singleton_append]
  unfold readString
  simp [h, h1, h2, h3]

/-- the lexer's string reader inverts `quoteString`'s escaping, whatever follows the closing quote -/
theorem readString_escapeAll (rest : List Char) : ∀ v : List Char,
    readString (escapeAll v ++ '"' :: rest) = .ok (v, rest)
  | [] => by unfold readString; simp [escapeAll]
  | c :: v => by
    have ih := readString_escapeAll rest v
    simp only [escapeAll, List.append_assoc]
    exact readString_escapeChar c _ _ _ ih

/-! ## `step`, fuel, and the unfolding equations of `lex` -/

theorem step_space {c : Char} (cs : List Char) (h : isSpace c = true) : step c cs = .ok (none, cs) := by
  simp [step, h]

theorem step_lbrace (cs : List Char) :
    step '{' cs = match readPlaceholder ('{' :: cs) with
      | some (p, r) => .ok (some (.ident p), r)
      | none => .ok (some .lbrace, cs) := by
  simp only [step, isSpace]
  cases readPlaceholder ('{' :: cs) <;> rfl

theorem step_rbrace (cs : List Char) : step '}' cs = .ok (some .rbrace, cs) := by
  simp [step, isSpace]

theorem step_hash (cs : List Char) :
    step '#' cs = .ok (some (.comment ('#' :: cs.takeWhile (· != '\n'))), cs.dropWhile (· != '\n')) := by
  simp [step, isSpace]

theorem step_quote (cs : List Char) :
    step '"' cs = match readString cs with
      | .ok (s, r) => .ok (some (.str s), r)
      | .error err => .error err := by
  simp only [step, isSpace]
  cases readString cs <;> rfl

theorem step_ident {c : Char} (cs : List Char) (h : isDelim c = false) :
    step c cs = .ok (some (.ident (c :: cs.takeWhile (fun x => !isDelim x))), cs.dropWhile (fun x => !isDelim x)) := by
  obtain ⟨h1, h2, h3, h4, h5⟩ := not_delim_ne h
  simp [step, h1, h2, h3, h4, h5]

/-- every character is of exactly one of the six kinds `step` distinguishes -/
theorem char_cases (c : Char) :
    isSpace c = true ∨ c = '{' ∨ c = '#' ∨ c = '}' ∨ c = '"' ∨ isDelim c = false := by
  by_cases h1 : isSpace c = true
  · exact .inl h1
  by_cases h2 : c = '{'
  · exact .inr (.inl h2)
  by_cases h3 : c = '#'
  · exact .inr (.inr (.inl h3))
  by_cases h4 : c = '}'
  · exact .inr (.inr (.inr (.inl h4)))
  by_cases h5 : c = '"'
  · exact .inr (.inr (.inr (.inr (.inl h5))))
  · refine .inr (.inr (.inr (.inr (.inr ?_))))
    simp [isDelim, h1, h2, h3, h4, h5]

theorem length_dropWhile_le (p : Char → Bool) : ∀ l : List Char, (l.dropWhile p).length ≤ l.length
  | [] => by simp
  | a :: l => by
    have := length_dropWhile_le p l
    simp only [List.dropWhile]
    split <;> simp <;> omega

/-- every `step` consumes its first character and never produces input -/
theorem step_length {c : Char} {cs : List Char} {t : Option Tok} {r : List Char}
    (h : step c cs = .ok (t, r)) : r.length ≤ cs.length := by
  rcases char_cases c with hc | rfl | rfl | rfl | rfl | hc
  · rw [step_space cs hc] at h
    simp only [Except.ok.injEq, Prod.mk.injEq] at h
    rw [h.2]; exact Nat.le_refl _
  · rw [step_lbrace] at h
    cases hp : readPlaceholder ('{' :: cs) with
    | none =>
      simp only [hp, Except.ok.injEq, Prod.mk.injEq] at h
      rw [h.2]; exact Nat.le_refl _
    | some pr =>
      obtain ⟨p, r'⟩ := pr
      simp only [hp, Except.ok.injEq, Prod.mk.injEq] at h
      have := congrArg List.length (readPlaceholder_append hp)
      obtain ⟨_, body, hpb, _, _⟩ := (readPlaceholder_eq_some_iff _ _ _).mp hp
      rw [hpb] at this
      simp at this
      rw [← h.2]; omega
  · rw [step_hash] at h
    simp only [Except.ok.injEq, Prod.mk.injEq] at h
    rw [← h.2]; exact length_dropWhile_le _ _
  · rw [step_rbrace] at h
    simp only [Except.ok.injEq, Prod.mk.injEq] at h
    rw [h.2]; exact Nat.le_refl _
  · rw [step_quote] at h
    cases hr : readString cs with
    | error e => simp [hr] at h
    | ok sr =>
      obtain ⟨s, r'⟩ := sr
      simp only [hr, Except.ok.injEq, Prod.mk.injEq] at h
      have := readString_length _ cs s r' (Nat.le_refl _) hr
      rw [← h.2]; omega
  · rw [step_ident cs hc] at h
    simp only [Except.ok.injEq, Prod.mk.injEq] at h
    rw [← h.2]; exact length_dropWhile_le _ _

/-- **fuel irrelevance**: any fuel above the input length gives the same result -/
theorem lexAux_fuel : ∀ (n m : Nat) (cs : List Char), cs.length < n → cs.length < m → lexAux n cs = lexAux m cs
  | n, m, [], _, _ => by
    cases n <;> cases m <;> rfl
  | 0, _, _ :: _, hn, _ => by simp at hn
  | _, 0, _ :: _, _, hm => by simp at hm
  | n + 1, m + 1, c :: cs, hn, hm => by
    simp only [lexAux]
    cases hs : step c cs with
    | error e => rfl
    | ok tr =>
      obtain ⟨t, r⟩ := tr
      have hl := step_length hs
      simp only [List.length_cons] at hn hm
      simp only []
      rw [lexAux_fuel n m r (by omega) (by omega)]

theorem lex_nil : lex [] = .ok [] := rfl

/-- unfolding equation of `lex` (no fuel) -/
theorem lex_cons (c : Char) (cs : List Char) :
    lex (c :: cs) = match step c cs with
      | .error e => .error e
      | .ok (t, r) => consTok t (lex r) := by
  simp only [lex, lexAux, List.length_cons]
  cases hs : step c cs with
  | error e => rfl
  | ok tr =>
    obtain ⟨t, r⟩ := tr
    have hl := step_length hs
    simp only []
    rw [lexAux_fuel (cs.length + 1) (r.length + 1) r (by omega) (by omega)]

theorem lex_cons_ok {c : Char} {cs : List Char} {t : Option Tok} {r : List Char} (h : step c cs = .ok (t, r)) :
    lex (c :: cs) = consTok t (lex r) := by
  rw [lex_cons, h]

theorem lex_cons_error {c : Char} {cs : List Char} {e : String} (h : step c cs = .error e) :
    lex (c :: cs) = .error e := by
  rw [lex_cons, h]

/-! ## 1. quoted round trip -/

/-- **every string survives quoting**: quotes, backslashes, newlines, tabs, CR, braces, `#`, spaces, any Unicode. -/
theorem quote_lex_roundtrip (v : List Char) : lex (quoteString v) = .ok [.str v] := by
  unfold quoteString
  have hs : step '"' (escapeAll v ++ ['"']) = .ok (some (.str v), []) := by
    rw [step_quote, readString_escapeAll]
  rw [lex_cons_ok hs, lex_nil]; rfl

/-! ## 2. bare (unquoted) round trip -/

theorem takeWhile_all (p : Char → Bool) : ∀ l : List Char, (∀ c ∈ l, p c = true) → l.takeWhile p = l
  | [], _ => rfl
  | a :: l, h => by
    simp only [List.takeWhile, h a (List.mem_cons_self ..)]
    rw [takeWhile_all p l (fun c hc => h c (List.mem_cons_of_mem _ hc))]

theorem dropWhile_all (p : Char → Bool) : ∀ l : List Char, (∀ c ∈ l, p c = true) → l.dropWhile p = []
  | [], _ => rfl
  | a :: l, h => by
    simp only [List.dropWhile, h a (List.mem_cons_self ..)]
    rw [dropWhile_all p l (fun c hc => h c (List.mem_cons_of_mem _ hc))]

theorem unquoted_lex_roundtrip (v : List Char) (hne : v ≠ []) (h : ∀ c ∈ v, isDelim c = false) :
    lex v = .ok [.ident v] := by
  cases v with
  | nil => exact absurd rfl hne
  | cons c cs =>
    have hc := h c (List.mem_cons_self ..)
    have hcs : ∀ x ∈ cs, (fun x => !isDelim x) x = true := fun x hx => by
      simp [h x (List.mem_cons_of_mem _ hx)]
    rw [lex_cons_ok (step_ident cs hc), takeWhile_all _ cs hcs, dropWhile_all _ cs hcs, lex_nil]; rfl

/-! ## 3. placeholder round trip -/

theorem lex_of_readPlaceholder_self {v : List Char} (h : readPlaceholder v = some (v, [])) :
    lex v = .ok [.ident v] := by
  obtain ⟨hp, _⟩ := (readPlaceholder_eq_some_iff _ _ _).mp h
  obtain ⟨rest, rfl⟩ := isPlaceholderPrefix_head hp
  have hs : step '{' rest = .ok (some (.ident ('{' :: rest)), []) := by
    rw [step_lbrace, h]
  rw [lex_cons_ok hs, lex_nil]; rfl

/-- `{$…}`, `{env.…}`, `{file.…}` with a body free of spaces and braces lex back as ONE identifier. -/
theorem placeholder_lex_roundtrip (body : List Char)
    (hpre : isPlaceholderPrefix ('{' :: body ++ ['}']) = true)
    (hbody : ∀ c ∈ body, isSpace c = false ∧ c ≠ '{' ∧ c ≠ '}') :
    lex ('{' :: body ++ ['}']) = .ok [.ident ('{' :: body ++ ['}'])] :=
  lex_of_readPlaceholder_self ((readPlaceholder_eq_some_iff _ _ _).mpr ⟨hpre, body, rfl, rfl, hbody⟩)

/-! ## 4. what identifier tokens look like, and the gap in `isUnquotedValueSafe` -/

/-- the two shapes of an identifier token: a non-empty delimiter-free word, or a complete recognised placeholder -/
def IdentForm (v : List Char) : Prop :=
  (v ≠ [] ∧ ∀ c ∈ v, isDelim c = false) ∨ readPlaceholder v = some (v, [])

theorem lex_of_identForm {v : List Char} (h : IdentForm v) : lex v = .ok [.ident v] := by
  rcases h with ⟨hne, hd⟩ | hp
  · exact unquoted_lex_roundtrip v hne hd
  · exact lex_of_readPlaceholder_self hp

theorem consTok_some_ok {t : Tok} {x : Except String (List Tok)} {toks : List Tok}
    (h : consTok (some t) x = .ok toks) : ∃ ts, x = .ok ts ∧ toks = t :: ts := by
  cases x with
  | error e => simp [consTok] at h
  | ok ts => simp only [consTok, Except.ok.injEq] at h; exact ⟨ts, rfl, h.symm⟩

theorem consTok_none (x : Except String (List Tok)) : consTok none x = x := by
  cases x <;> rfl

theorem mem_takeWhile_imp (p : Char → Bool) : ∀ (l : List Char) (x : Char), x ∈ l.takeWhile p → p x = true
  | [], _, h => by simp at h
  | a :: l, x, h => by
    simp only [List.takeWhile] at h
    split at h
    · rcases List.mem_cons.mp h with rfl | h
      · assumption
      · exact mem_takeWhile_imp p l x h
    · simp at h

/-- an identifier token emitted by one `step` has one of the two identifier shapes -/
theorem step_ident_form {c : Char} {cs v r : List Char} (h : step c cs = .ok (some (.ident v), r)) :
    IdentForm v := by
  rcases char_cases c with hc | rfl | rfl | rfl | rfl | hc
  · rw [step_space cs hc] at h; simp at h
  · rw [step_lbrace] at h
    cases hp : readPlaceholder ('{' :: cs) with
    | none => simp [hp] at h
    | some pr =>
      obtain ⟨p, r'⟩ := pr
      simp only [hp, Except.ok.injEq, Prod.mk.injEq, Option.some.injEq, Tok.ident.injEq] at h
      rw [← h.1]
      exact .inr (readPlaceholder_self hp)
  · rw [step_hash] at h; simp at h
  · rw [step_rbrace] at h; simp at h
  · rw [step_quote] at h
    cases hr : readString cs with
    | error e => simp [hr] at h
    | ok sr => simp [hr] at h
  · rw [step_ident cs hc] at h
    simp only [Except.ok.injEq, Prod.mk.injEq, Option.some.injEq, Tok.ident.injEq] at h
    rw [← h.1]
    refine .inl ⟨by simp, ?_⟩
    intro x hx
    rcases List.mem_cons.mp hx with rfl | hx
    · exact hc
    · simpa using mem_takeWhile_imp _ cs x hx

theorem lexer_ident_form_aux : ∀ (n : Nat) (src : List Char) (toks : List Tok) (v : List Char),
    src.length ≤ n → lex src = .ok toks → Tok.ident v ∈ toks → IdentForm v
  | _, [], toks, v, _, h, hm => by
    rw [lex_nil] at h; cases h; simp at hm
  | 0, _ :: _, _, _, hn, _, _ => by simp at hn
  | n + 1, c :: cs, toks, v, hn, h, hm => by
    cases hs : step c cs with
    | error e => rw [lex_cons_error hs] at h; cases h
    | ok tr =>
      obtain ⟨t, r⟩ := tr
      rw [lex_cons_ok hs] at h
      have hl := step_length hs
      simp only [List.length_cons] at hn
      cases t with
      | none =>
        rw [consTok_none] at h
        exact lexer_ident_form_aux n r toks v (by omega) h hm
      | some t =>
        obtain ⟨ts, hr, rfl⟩ := consTok_some_ok h
        rcases List.mem_cons.mp hm with hm | hm
        · subst hm; exact step_ident_form hs
        · exact lexer_ident_form_aux n r ts v (by omega) hr hm

/-- every identifier token the lexer produces, from any source text, is a non-empty delimiter-free word or a complete
    recognised placeholder -/
theorem lexer_ident_form {src : List Char} {toks : List Tok} {v : List Char}
    (h : lex src = .ok toks) (hm : Tok.ident v ∈ toks) : IdentForm v :=
  lexer_ident_form_aux src.length src toks v (Nat.le_refl _) h hm

/-- **the lexer never produces an identifier it would not read back**: each identifier token of any successfully lexed
    source lexes, on its own, to exactly that one identifier token. -/
theorem lexer_ident_shape {src : List Char} {toks : List Tok} {v : List Char}
    (h : lex src = .ok toks) (hm : Tok.ident v ∈ toks) : lex v = .ok [.ident v] :=
  lex_of_identForm (lexer_ident_form h hm)

/-- exact characterisation of the bare values that round-trip -/
theorem lex_single_ident_iff (v : List Char) : lex v = .ok [.ident v] ↔ IdentForm v :=
  ⟨fun h => lexer_ident_form h (List.mem_singleton.mpr rfl), lex_of_identForm⟩

theorem prefix_lbrace_iff (v : List Char) : ['{'].isPrefixOf v = true ↔ ∃ t, v = '{' :: t := by
  cases v with
  | nil => simp [List.isPrefixOf]
  | cons a t =>
    simp only [List.isPrefixOf, Bool.and_true, beq_iff_eq, List.cons.injEq]
    constructor
    · intro h; exact ⟨t, h.symm, rfl⟩
    · rintro ⟨_, h, _⟩; exact h.symm

/-- `HasPrefix(v,"{") && HasSuffix(v,"}")` means `v = "{" ++ body ++ "}"` -/
theorem brace_form_iff (v : List Char) :
    (['{'].isPrefixOf v && ['}'].isSuffixOf v) = true ↔ ∃ body, v = '{' :: body ++ ['}'] := by
  rw [Bool.and_eq_true, prefix_lbrace_iff, List.isSuffixOf_iff_suffix]
  constructor
  · rintro ⟨⟨t, rfl⟩, u, hu⟩
    cases u with
    | nil => simp at hu
    | cons a body =>
      simp only [List.cons_append, List.cons.injEq] at hu
      exact ⟨body, by rw [← hu.2]; simp⟩
  · rintro ⟨body, rfl⟩
    exact ⟨⟨_, rfl⟩, '{' :: body, by simp⟩

/-- `isUnquotedValueSafe` spelled out -/
theorem isUnquotedValueSafe_iff (v : List Char) :
    isUnquotedValueSafe v = true ↔
      ((∃ body, v = '{' :: body ++ ['}']) ∧ ∀ c ∈ v, isSpace c = false) ∨
      (v ≠ [] ∧ ∀ c ∈ v, isDelim c = false) := by
  unfold isUnquotedValueSafe
  cases v with
  | nil => simp
  | cons a t =>
    have hb := brace_form_iff (a :: t)
    by_cases h1 : (['{'].isPrefixOf (a :: t) && ['}'].isSuffixOf (a :: t)) = true
    · by_cases h2 : (a :: t).any isSpace = true
      · have h2' : ¬ ∀ c ∈ a :: t, isSpace c = false := by
          intro hall
          obtain ⟨x, hx, hsx⟩ := List.any_eq_true.mp h2
          rw [hall x hx] at hsx; cases hsx
        have h3 : ¬ ∀ c ∈ a :: t, isDelim c = false := fun hall =>
          h2' (fun c hc => isSpace_of_not_delim (hall c hc))
        simp only [List.isEmpty_cons, Bool.false_eq_true, ite_false, h1, h2, Bool.not_true, Bool.and_false,
          List.all_eq_true, Bool.not_eq_true', ne_eq, reduceCtorEq, not_false_eq_true, true_and]
        constructor
        · intro h; exact .inr h
        · rintro (⟨_, h⟩ | h)
          · exact absurd h h2'
          · exact h
      · have h2' : ∀ c ∈ a :: t, isSpace c = false := by
          intro c hc
          cases hsc : isSpace c
          · rfl
          · exact absurd (List.any_eq_true.mpr ⟨c, hc, hsc⟩) h2
        simp only [Bool.not_eq_true] at h2
        simp only [List.isEmpty_cons, Bool.false_eq_true, ite_false, h1, h2, Bool.not_false, Bool.and_self,
          ite_true, true_iff]
        exact .inl ⟨hb.mp h1, h2'⟩
    · have h1' : ¬ ∃ body, a :: t = '{' :: body ++ ['}'] := fun h => h1 (hb.mpr h)
      simp only [Bool.not_eq_true] at h1
      simp only [List.isEmpty_cons, Bool.false_eq_true, ite_false, h1, Bool.false_and,
        List.all_eq_true, Bool.not_eq_true', ne_eq, reduceCtorEq, not_false_eq_true, true_and]
      constructor
      · intro h; exact .inr h
      · rintro (⟨h, _⟩ | h)
        · exact absurd h h1'
        · exact h

/-- every identifier token the lexer can produce is written bare by the formatter -/
theorem isUnquotedValueSafe_of_identForm {v : List Char} (h : IdentForm v) : isUnquotedValueSafe v = true := by
  rw [isUnquotedValueSafe_iff]
  rcases h with h | hp
  · exact .inr h
  · obtain ⟨_, body, hv, _, hb⟩ := (readPlaceholder_eq_some_iff _ _ _).mp hp
    refine .inl ⟨⟨body, hv⟩, ?_⟩
    intro c hc
    rw [hv] at hc
    simp only [List.cons_append, List.mem_cons, List.mem_append, List.not_mem_nil, or_false] at hc
    rcases hc with rfl | hc | rfl
    · decide
    · exact (hb c hc).1
    · decide

theorem isUnquotedPathSafe_roundtrip (p : List Char) (h : isUnquotedPathSafe p = true) :
    lex p = .ok [.ident p] := by
  unfold isUnquotedPathSafe at h
  cases p with
  | nil => simp at h
  | cons a t =>
    split at h
    · cases h
    · exact unquoted_lex_roundtrip _ (by simp) (fun c hc => by simpa using (List.all_eq_true.mp h) c hc)

/-- a non-space first character always yields a token -/
theorem step_some_of_nonspace {c : Char} {cs r : List Char} {t : Option Tok} (hc : isSpace c = false)
    (h : step c cs = .ok (t, r)) : ∃ t', t = some t' := by
  rcases char_cases c with hc' | rfl | rfl | rfl | rfl | hc'
  · rw [hc] at hc'; cases hc'
  · rw [step_lbrace] at h
    cases hp : readPlaceholder ('{' :: cs) with
    | none => simp only [hp, Except.ok.injEq, Prod.mk.injEq] at h; exact ⟨_, h.1.symm⟩
    | some pr => simp only [hp, Except.ok.injEq, Prod.mk.injEq] at h; exact ⟨_, h.1.symm⟩
  · rw [step_hash] at h
    simp only [Except.ok.injEq, Prod.mk.injEq] at h; exact ⟨_, h.1.symm⟩
  · rw [step_rbrace] at h
    simp only [Except.ok.injEq, Prod.mk.injEq] at h; exact ⟨_, h.1.symm⟩
  · rw [step_quote] at h
    cases hr : readString cs with
    | error e => simp [hr] at h
    | ok sr => simp only [hr, Except.ok.injEq, Prod.mk.injEq] at h; exact ⟨_, h.1.symm⟩
  · rw [step_ident cs hc'] at h
    simp only [Except.ok.injEq, Prod.mk.injEq] at h; exact ⟨_, h.1.symm⟩

theorem lex_ne_nil_of_nonspace {c : Char} {cs : List Char} {toks : List Tok} (hc : isSpace c = false)
    (h : lex (c :: cs) = .ok toks) : toks ≠ [] := by
  cases hs : step c cs with
  | error e => rw [lex_cons_error hs] at h; cases h
  | ok tr =>
    obtain ⟨t, r⟩ := tr
    obtain ⟨t', rfl⟩ := step_some_of_nonspace hc hs
    rw [lex_cons_ok hs] at h
    obtain ⟨ts, _, rfl⟩ := consTok_some_ok h
    simp

/-- **the gap**: a value the formatter writes bare (`isUnquotedValueSafe`) although it is of brace form `{…}` and NOT a
    complete lexer placeholder (`{vars.X}`, `{x}`, `{}`, `{$a}}`, `{$a{b}`, …). -/
def isGap (v : List Char) : Bool := ['{'].isPrefixOf v && (readPlaceholder v != some (v, []))

/-- the gap in syntactic terms: brace form `{body}` where the prefix is not `{$`/`{env.`/`{file.` or the body contains
    another brace (spaces are already excluded by `isUnquotedValueSafe`) -/
theorem isGap_brace_iff (body : List Char) :
    isGap ('{' :: body ++ ['}']) = true ↔
      ¬ (isPlaceholderPrefix ('{' :: body ++ ['}']) = true ∧ ∀ c ∈ body, isSpace c = false ∧ c ≠ '{' ∧ c ≠ '}') := by
  have hpre : ['{'].isPrefixOf ('{' :: body ++ ['}']) = true := (prefix_lbrace_iff _).mpr ⟨_, rfl⟩
  simp only [isGap, hpre, Bool.true_and, bne_iff_ne, ne_eq]
  rw [readPlaceholder_eq_some_iff]
  constructor
  · intro h ⟨hp, hb⟩; exact h ⟨hp, body, rfl, rfl, hb⟩
  · intro h ⟨hp, body', hv, _, hb⟩
    have : body = body' := by
      have := List.cons.inj hv
      exact List.append_cancel_right this.2
    subst this
    exact h ⟨hp, hb⟩

/-- **4. the honest gap, exactly**: a value accepted by `isUnquotedValueSafe` either lexes back as the one identifier
    (`isGap v = false`), or is a space-free brace-form value that is not a complete placeholder (`isGap v = true`), and
    then the lexer NEVER returns a single token for it: it errors or splits it into at least two tokens. -/
theorem unquoted_safe_gap (v : List Char) (h : isUnquotedValueSafe v = true) :
    (isGap v = false ∧ lex v = .ok [.ident v]) ∨
    (isGap v = true ∧ (∃ body, v = '{' :: body ++ ['}']) ∧ (∀ c ∈ v, isSpace c = false) ∧
      ∀ toks, lex v = .ok toks → 2 ≤ toks.length) := by
  rcases (isUnquotedValueSafe_iff v).mp h with ⟨⟨body, hv⟩, hns⟩ | ⟨hne, hd⟩
  · by_cases hp : readPlaceholder v = some (v, [])
    · refine .inl ⟨?_, lex_of_readPlaceholder_self hp⟩
      simp [isGap, hp]
    · have hg : isGap v = true := by
        have : ['{'].isPrefixOf v = true := (prefix_lbrace_iff v).mpr ⟨_, by rw [hv]; rfl⟩
        simp [isGap, this, hp]
      refine .inr ⟨hg, ⟨body, hv⟩, hns, ?_⟩
      intro toks hl
      -- `v = '{' :: rest`, `rest` non-empty and space-free
      obtain ⟨c1, rest1, hrest⟩ : ∃ c1 rest1, body ++ ['}'] = c1 :: rest1 := by
        cases body with
        | nil => exact ⟨_, _, rfl⟩
        | cons a t => exact ⟨_, _, rfl⟩
      have hv' : v = '{' :: c1 :: rest1 := by rw [hv, List.cons_append, hrest]
      cases hq : readPlaceholder v with
      | none =>
        have hs : step '{' (c1 :: rest1) = .ok (some .lbrace, c1 :: rest1) := by
          rw [step_lbrace, ← hv', hq]
        rw [hv', lex_cons_ok hs] at hl
        obtain ⟨ts, hr, rfl⟩ := consTok_some_ok hl
        have hc1 : isSpace c1 = false := hns c1 (by rw [hv']; simp)
        have := lex_ne_nil_of_nonspace hc1 hr
        cases ts with
        | nil => exact absurd rfl this
        | cons _ _ => simp
      | some pr =>
        obtain ⟨p, r⟩ := pr
        have happ := readPlaceholder_append hq
        have hs : step '{' (c1 :: rest1) = .ok (some (.ident p), r) := by
          rw [step_lbrace, ← hv', hq]
        rw [hv', lex_cons_ok hs] at hl
        obtain ⟨ts, hr, rfl⟩ := consTok_some_ok hl
        cases r with
        | nil =>
          rw [List.append_nil] at happ
          rw [happ] at hq
          exact absurd hq hp
        | cons c2 r2 =>
          have hc2 : isSpace c2 = false := hns c2 (by rw [← happ]; simp)
          have := lex_ne_nil_of_nonspace hc2 hr
          cases ts with
          | nil => exact absurd rfl this
          | cons _ _ => simp
  · refine .inl ⟨?_, unquoted_lex_roundtrip v hne hd⟩
    cases v with
    | nil => exact absurd rfl hne
    | cons a t =>
      have ha : a ≠ '{' := (not_delim_ne (hd a (List.mem_cons_self ..))).2.1
      have : ['{'].isPrefixOf (a :: t) = false := by
        simp [List.isPrefixOf, Ne.symm ha]
      simp [isGap, this]

/-- consequence: in the gap the value does NOT lex back to itself -/
theorem gap_not_roundtrip (v : List Char) (h : isUnquotedValueSafe v = true) (hg : isGap v = true) :
    lex v ≠ .ok [.ident v] := by
  rcases unquoted_safe_gap v h with ⟨hg', _⟩ | ⟨_, _, _, h2⟩
  · rw [hg] at hg'; cases hg'
  · intro hl; have := h2 _ hl; simp at this

/-- for values `isUnquotedValueSafe` accepts: round trip ⇔ not in the gap -/
theorem unquoted_safe_roundtrip_iff (v : List Char) (h : isUnquotedValueSafe v = true) :
    lex v = .ok [.ident v] ↔ isGap v = false := by
  constructor
  · intro hl
    cases hg : isGap v
    · rfl
    · exact absurd hl (gap_not_roundtrip v h hg)
  · intro hg
    rcases unquoted_safe_gap v h with ⟨_, hl⟩ | ⟨hg', _⟩
    · exact hl
    · rw [hg] at hg'; cases hg'

/-- concrete witnesses of the gap (tests, by evaluation) -/
theorem gap_witness_x :
    isUnquotedValueSafe "{x}".toList = true ∧ lex "{x}".toList = .ok [.lbrace, .ident ['x'], .rbrace] := by
  decide

theorem gap_witness_vars :
    isUnquotedValueSafe "{vars.X}".toList = true ∧ isGap "{vars.X}".toList = true ∧
      lex "{vars.X}".toList = .ok [.lbrace, .ident "vars.X".toList, .rbrace] := by
  decide +kernel

theorem gap_witness_empty_braces :
    isUnquotedValueSafe "{}".toList = true ∧ lex "{}".toList = .ok [.lbrace, .rbrace] := by
  decide

/-- a brace-form value containing a quote is written bare and then fails to lex at all -/
theorem gap_witness_error :
    isUnquotedValueSafe "{a\"b}".toList = true ∧ lex "{a\"b}".toList = .error "unterminated string" := by
  decide +kernel

/-! ## 5. value round trip -/

/-- the token a (value, quoted) pair came from -/
def valueTok (v : List Char) (quoted : Bool) : Tok := if quoted then .str v else .ident v

def Tok.text : Tok → List Char
  | .ident s => s
  | .str s => s
  | .lbrace => ['{']
  | .rbrace => ['}']
  | .comment s => s

theorem valueTok_text (v : List Char) (q : Bool) : (valueTok v q).text = v := by
  cases q <;> rfl

/-- **every value the lexer can produce survives `formatValue`**: a quoted value is any string; a bare value is the
    text of an identifier token.  The result is exactly one token, of the SAME kind, carrying exactly `v`. -/
theorem value_roundtrip (v : List Char) (quoted : Bool)
    (h : quoted = true ∨ lex v = .ok [.ident v]) :
    lex (formatValue v quoted) = .ok [valueTok v quoted] := by
  cases quoted with
  | true => simp only [formatValue, valueTok, ite_true]; exact quote_lex_roundtrip v
  | false =>
    have hl : lex v = .ok [.ident v] := by
      rcases h with h | h
      · cases h
      · exact h
    have hs := isUnquotedValueSafe_of_identForm ((lex_single_ident_iff v).mp hl)
    simp only [formatValue, valueTok, Bool.false_eq_true, ite_false, hs, ite_true]
    exact hl

/-- the form asked for: exactly one token, a string or an identifier, carrying exactly `v` -/
theorem value_roundtrip' (v : List Char) (quoted : Bool)
    (h : quoted = true ∨ lex v = .ok [.ident v]) :
    ∃ t, lex (formatValue v quoted) = .ok [t] ∧ (t = .str v ∨ t = .ident v) ∧ t.text = v := by
  refine ⟨valueTok v quoted, value_roundtrip v quoted h, ?_, valueTok_text v quoted⟩
  cases quoted
  · exact .inr rfl
  · exact .inl rfl

/-- even WITHOUT the hypothesis (arbitrary bare `v`): `formatValue` output is one token with text `v`, or `v` is in the
    gap -/
theorem formatValue_total (v : List Char) (quoted : Bool) :
    (∃ t, lex (formatValue v quoted) = .ok [t] ∧ t.text = v) ∨
    (quoted = false ∧ isUnquotedValueSafe v = true ∧ isGap v = true) := by
  cases quoted with
  | true => exact .inl ⟨.str v, by simpa [formatValue] using quote_lex_roundtrip v, rfl⟩
  | false =>
    cases hs : isUnquotedValueSafe v with
    | false => exact .inl ⟨.str v, by simpa [formatValue, hs] using quote_lex_roundtrip v, rfl⟩
    | true =>
      rcases unquoted_safe_gap v hs with ⟨_, hl⟩ | ⟨hg, _⟩
      · exact .inl ⟨.ident v, by simpa [formatValue, hs] using hl, rfl⟩
      · exact .inr ⟨rfl, rfl, hg⟩

/-! ## 6. concatenation with a separator; whole directive lines -/

theorem takeWhile_append_stop (p : Char → Bool) (x : Char) (r : List Char) (hx : p x = false) :
    ∀ l : List Char, (l ++ x :: r).takeWhile p = l.takeWhile p ∧ (l ++ x :: r).dropWhile p = l.dropWhile p ++ x :: r
  | [] => by simp [List.takeWhile, List.dropWhile, hx]
  | a :: l => by
    have ih := takeWhile_append_stop p x r hx l
    cases ha : p a <;> simp [List.takeWhile, List.dropWhile, ha, ih.1, ih.2]

theorem takeWhile_append_of_dropWhile_ne_nil (p : Char → Bool) (y : List Char) :
    ∀ l : List Char, l.dropWhile p ≠ [] →
      (l ++ y).takeWhile p = l.takeWhile p ∧ (l ++ y).dropWhile p = l.dropWhile p ++ y
  | [], h => by simp at h
  | a :: l, h => by
    cases ha : p a
    · simp [List.takeWhile, List.dropWhile, ha]
    · simp only [List.dropWhile, ha] at h
      have ih := takeWhile_append_of_dropWhile_ne_nil p y l h
      simp [List.takeWhile, List.dropWhile, ha, ih.1, ih.2]

theorem scanPlaceholder_append_some (x : List Char) {cs p r : List Char} (h : scanPlaceholder cs = some (p, r)) :
    scanPlaceholder (cs ++ x) = some (p, r ++ x) := by
  obtain ⟨body, rfl, rfl, hb⟩ := scanPlaceholder_spec cs p r h
  have : body ++ '}' :: r ++ x = body ++ '}' :: (r ++ x) := by simp
  rw [this, scanPlaceholder_body body _ hb]

theorem scanPlaceholder_append_none (sep : Char) (b : List Char) (hsep : isSpace sep = true) :
    ∀ cs : List Char, scanPlaceholder cs = none → scanPlaceholder (cs ++ sep :: b) = none
  | [], _ => by simp [scanPlaceholder, hsep]
  | c :: cs, h => by
    rw [List.cons_append]
    unfold scanPlaceholder at h ⊢
    by_cases h1 : (isSpace c || c == '{') = true
    · simp [h1]
    · simp only [h1, Bool.false_eq_true, ite_false] at h ⊢
      by_cases h2 : (c == '}') = true
      · simp [h2] at h
      · simp only [h2, Bool.false_eq_true, ite_false] at h ⊢
        cases hs : scanPlaceholder cs with
        | none => rw [scanPlaceholder_append_none sep b hsep cs hs]
        | some pr => simp [hs] at h

theorem space_cases {c : Char} (h : isSpace c = true) : c = ' ' ∨ c = '\t' ∨ c = '\n' ∨ c = '\r' := by
  simpa [isSpace, or_assoc] using h

/-- a space separator stops placeholder recognition: nothing after it can complete (or change) a placeholder -/
theorem readPlaceholder_append_sep (sep : Char) (b : List Char) (hsep : isSpace sep = true) (c : Char)
    (cs : List Char) :
    readPlaceholder (c :: cs ++ sep :: b) =
      match readPlaceholder (c :: cs) with
      | some (p, r) => some (p, r ++ sep :: b)
      | none => none := by
  have hpre : isPlaceholderPrefix (c :: cs ++ sep :: b) = isPlaceholderPrefix (c :: cs) := by
    rcases space_cases hsep with rfl | rfl | rfl | rfl <;>
      exact isPlaceholderPrefix_append_sep _ (by decide) (by decide) _ _
  unfold readPlaceholder
  rw [hpre]
  by_cases hp : isPlaceholderPrefix (c :: cs) = true
  · simp only [hp, ite_true, List.cons_append]
    cases hs : scanPlaceholder cs with
    | none => rw [scanPlaceholder_append_none sep b hsep cs hs]
    | some pr =>
      obtain ⟨p, r⟩ := pr
      rw [scanPlaceholder_append_some _ hs]
  · simp [hp]

/-- one `step` is unaffected by appending `sep :: b` (`sep` a space character), except that a comment running to the
    end of the input would swallow a non-newline separator -/
theorem step_append_sep (sep : Char) (b : List Char) (hsep : isSpace sep = true)
    {c : Char} {cs r : List Char} {t : Option Tok} (h : step c cs = .ok (t, r))
    (hc : sep = '\n' ∨ ∀ s, t = some (.comment s) → r ≠ []) :
    step c (cs ++ sep :: b) = .ok (t, r ++ sep :: b) := by
  rcases char_cases c with hc' | rfl | rfl | rfl | rfl | hc'
  · rw [step_space _ hc'] at h ⊢
    simp only [Except.ok.injEq, Prod.mk.injEq] at h
    rw [← h.1, ← h.2]
  · rw [step_lbrace] at h ⊢
    rw [← List.cons_append, readPlaceholder_append_sep sep b hsep]
    cases hp : readPlaceholder ('{' :: cs) with
    | none =>
      simp only [hp, Except.ok.injEq, Prod.mk.injEq] at h
      simp only [← h.1, ← h.2]
    | some pr =>
      obtain ⟨p, r'⟩ := pr
      simp only [hp, Except.ok.injEq, Prod.mk.injEq] at h
      simp only [← h.1, ← h.2]
  · rw [step_hash] at h ⊢
    simp only [Except.ok.injEq, Prod.mk.injEq] at h
    have key : (cs ++ sep :: b).takeWhile (· != '\n') = cs.takeWhile (· != '\n') ∧
        (cs ++ sep :: b).dropWhile (· != '\n') = cs.dropWhile (· != '\n') ++ sep :: b := by
      rcases hc with rfl | hc
      · exact takeWhile_append_stop _ _ _ (by simp) cs
      · exact takeWhile_append_of_dropWhile_ne_nil _ _ cs (by rw [h.2]; exact hc _ h.1.symm)
    rw [key.1, key.2, ← h.1, ← h.2]
  · rw [step_rbrace] at h ⊢
    simp only [Except.ok.injEq, Prod.mk.injEq] at h
    rw [← h.1, ← h.2]
  · rw [step_quote] at h ⊢
    cases hr : readString cs with
    | error e => simp [hr] at h
    | ok sr =>
      obtain ⟨s, r'⟩ := sr
      simp only [hr, Except.ok.injEq, Prod.mk.injEq] at h
      rw [readString_append _ _ cs s r' (Nat.le_refl _) hr]
      simp only [← h.1, ← h.2]
  · rw [step_ident _ hc'] at h ⊢
    simp only [Except.ok.injEq, Prod.mk.injEq] at h
    have key := takeWhile_append_stop (fun x => !isDelim x) sep b (by simp [isDelim_of_isSpace hsep]) cs
    rw [key.1, key.2, ← h.1, ← h.2]

theorem lex_append_sep_aux (sep : Char) (hsep : isSpace sep = true) (b : List Char) (tb : List Tok)
    (hb : lex b = .ok tb) :
    ∀ (n : Nat) (a : List Char) (ta : List Tok), a.length ≤ n → lex a = .ok ta →
      (sep = '\n' ∨ ∀ s, ta.getLast? ≠ some (.comment s)) → lex (a ++ sep :: b) = .ok (ta ++ tb)
  | _, [], ta, _, ha, _ => by
    rw [lex_nil] at ha; cases ha
    rw [List.nil_append, lex_cons_ok (step_space b hsep), consTok_none, hb]; rfl
  | 0, _ :: _, _, hn, _, _ => by simp at hn
  | n + 1, c :: cs, ta, hn, ha, hcond => by
    cases hs : step c cs with
    | error e => rw [lex_cons_error hs] at ha; cases ha
    | ok tr =>
      obtain ⟨t, r⟩ := tr
      have hl := step_length hs
      simp only [List.length_cons] at hn
      rw [lex_cons_ok hs] at ha
      cases t with
      | none =>
        rw [consTok_none] at ha
        have hs' := step_append_sep sep b hsep hs (.inr (fun s h => by cases h))
        rw [List.cons_append, lex_cons_ok hs', consTok_none]
        exact lex_append_sep_aux sep hsep b tb hb n r ta (by omega) ha hcond
      | some t =>
        obtain ⟨ts, hr, rfl⟩ := consTok_some_ok ha
        have hstep : sep = '\n' ∨ ∀ s, some t = some (.comment s) → r ≠ [] := by
          rcases hcond with h | h
          · exact .inl h
          · refine .inr (fun s ht hr0 => ?_)
            subst hr0
            rw [lex_nil] at hr; cases hr
            cases ht
            exact h s rfl
        have hts : sep = '\n' ∨ ∀ s, ts.getLast? ≠ some (.comment s) := by
          rcases hcond with h | h
          · exact .inl h
          · refine .inr (fun s hl => ?_)
            cases ts with
            | nil => simp at hl
            | cons t2 ts2 => exact h s (by rw [List.getLast?_cons_cons]; exact hl)
        have hs' := step_append_sep sep b hsep hs hstep
        rw [List.cons_append, lex_cons_ok hs',
          lex_append_sep_aux sep hsep b tb hb n r ts (by omega) hr hts]
        rfl

/-- **6a.** joining two lexable texts with a space: the token lists concatenate, provided the last token of the first
    text is not a comment (a comment runs to the end of the line and would swallow the second text). -/
theorem lex_append_space (a b : List Char) (ta tb : List Tok) (ha : lex a = .ok ta) (hb : lex b = .ok tb)
    (hlast : ∀ s, ta.getLast? ≠ some (.comment s)) :
    lex (a ++ [' '] ++ b) = .ok (ta ++ tb) := by
  rw [List.append_assoc, List.singleton_append]
  exact lex_append_sep_aux ' ' (by decide) b tb hb a.length a ta (Nat.le_refl _) ha (.inr hlast)

/-- same for any space character (`' '`, tab, CR, newline) -/
theorem lex_append_sep (sep : Char) (hsep : isSpace sep = true) (a b : List Char) (ta tb : List Tok)
    (ha : lex a = .ok ta) (hb : lex b = .ok tb) (hlast : ∀ s, ta.getLast? ≠ some (.comment s)) :
    lex (a ++ [sep] ++ b) = .ok (ta ++ tb) := by
  rw [List.append_assoc, List.singleton_append]
  exact lex_append_sep_aux sep hsep b tb hb a.length a ta (Nat.le_refl _) ha (.inr hlast)

/-- **6b.** joining with a newline needs NO side condition: a newline terminates a comment. -/
theorem lex_append_newline (a b : List Char) (ta tb : List Tok) (ha : lex a = .ok ta) (hb : lex b = .ok tb) :
    lex (a ++ ['\n'] ++ b) = .ok (ta ++ tb) := by
  rw [List.append_assoc, List.singleton_append]
  exact lex_append_sep_aux '\n' (by decide) b tb hb a.length a ta (Nat.le_refl _) ha (.inl rfl)

/-- the side condition of `lex_append_space` is needed: a trailing comment swallows what follows a space -/
theorem lex_append_space_needs_condition :
    lex "#c".toList = .ok [.comment "#c".toList] ∧ lex "x".toList = .ok [.ident "x".toList] ∧
    lex ("#c".toList ++ [' '] ++ "x".toList) = .ok [.comment "#c x".toList] := by
  decide +kernel

/-- a (value, quoted) pair the lexer can produce -/
def ValueOk (w : List Char × Bool) : Prop := w.2 = true ∨ lex w.1 = .ok [.ident w.1]

theorem intercalate_cons_cons (sep x y : List Char) (zs : List (List Char)) :
    List.intercalate sep (x :: y :: zs) = x ++ sep ++ List.intercalate sep (y :: zs) := by
  simp [List.intercalate]

theorem words_roundtrip_sep (sep : Char) (hsep : isSpace sep = true) :
    ∀ ws : List (List Char × Bool), (∀ w ∈ ws, ValueOk w) →
      lex (List.intercalate [sep] (ws.map (fun w => formatValue w.1 w.2))) = .ok (ws.map (fun w => valueTok w.1 w.2))
  | [], _ => by simp [List.intercalate, lex_nil]
  | [w], h => by
    have := value_roundtrip w.1 w.2 (h w (List.mem_singleton.mpr rfl))
    simpa [List.intercalate] using this
  | w :: w2 :: ws, h => by
    have h1 := value_roundtrip w.1 w.2 (h w (List.mem_cons_self ..))
    have ih := words_roundtrip_sep sep hsep (w2 :: ws) (fun x hx => h x (List.mem_cons_of_mem _ hx))
    simp only [List.map_cons] at ih ⊢
    rw [intercalate_cons_cons]
    have := lex_append_sep sep hsep _ _ _ _ h1 ih (by
      intro s; cases w.2 <;> simp [valueTok])
    simpa using this

/-- **6c. one directive line**: the words `formatValue` writes, joined by single spaces, lex back to exactly the same
    words — same number, same kinds (string / identifier), same texts. -/
theorem words_roundtrip (ws : List (List Char × Bool)) (h : ∀ w ∈ ws, ValueOk w) :
    lex (List.intercalate [' '] (ws.map (fun w => formatValue w.1 w.2))) = .ok (ws.map (fun w => valueTok w.1 w.2)) :=
  words_roundtrip_sep ' ' (by decide) ws h

/-- the same with newline as separator -/
theorem words_roundtrip_newline (ws : List (List Char × Bool)) (h : ∀ w ∈ ws, ValueOk w) :
    lex (List.intercalate ['\n'] (ws.map (fun w => formatValue w.1 w.2))) = .ok (ws.map (fun w => valueTok w.1 w.2)) :=
  words_roundtrip_sep '\n' (by decide) ws h

/-- **whole files**: lines that lex on their own (comments allowed anywhere), joined by newlines, lex to the
    concatenation of their token lists -/
theorem lines_roundtrip : ∀ (ls : List (List Char × List Tok)), (∀ l ∈ ls, lex l.1 = .ok l.2) →
    lex (List.intercalate ['\n'] (ls.map (·.1))) = .ok (ls.map (·.2)).flatten
  | [], _ => by simp [List.intercalate, lex_nil]
  | [l], h => by simpa [List.intercalate] using h l (List.mem_singleton.mpr rfl)
  | l :: l2 :: ls, h => by
    have h1 := h l (List.mem_cons_self ..)
    have ih := lines_roundtrip (l2 :: ls) (fun x hx => h x (List.mem_cons_of_mem _ hx))
    simp only [List.map_cons] at ih ⊢
    rw [intercalate_cons_cons]
    have := lex_append_newline _ _ _ _ h1 ih
    simpa using this

/-! ## 7. tests: non-vacuity on concrete strings (by kernel evaluation) -/

/-- test: a realistic config fragment -/
theorem test_lex_config :
    lex "route /x {\n  auth \"a\\\"b\" {$FOO} {env.X} # hi\n}".toList =
      .ok [.ident "route".toList, .ident "/x".toList, .lbrace, .ident "auth".toList, .str "a\"b".toList,
        .ident "{$FOO}".toList, .ident "{env.X}".toList, .comment "# hi".toList, .rbrace] := by
  decide +kernel

/-- test: quoting a string with every special character, and lexing it back -/
theorem test_quote :
    quoteString "a\"b\\c\nd\te\rf {#} é".toList = "\"a\\\"b\\\\c\\nd\\te\\rf {#} é\"".toList ∧
    lex (quoteString "a\"b\\c\nd\te\rf {#} é".toList) = .ok [.str "a\"b\\c\nd\te\rf {#} é".toList] := by
  decide +kernel

/-- test: `formatValue` decisions -/
theorem test_formatValue :
    formatValue "abc".toList false = "abc".toList ∧
    formatValue "abc".toList true = "\"abc\"".toList ∧
    formatValue "a b".toList false = "\"a b\"".toList ∧
    formatValue "".toList false = "\"\"".toList ∧
    formatValue "{$X}".toList false = "{$X}".toList ∧
    formatValue "{vars.X}".toList false = "{vars.X}".toList ∧
    formatValue "a#b".toList false = "\"a#b\"".toList := by
  decide +kernel

/-- test: placeholders recognised / not recognised -/
theorem test_placeholders :
    lex "{$A}".toList = .ok [.ident "{$A}".toList] ∧
    lex "{env.HOME}".toList = .ok [.ident "{env.HOME}".toList] ∧
    lex "{file./run/s\"x#}".toList = .ok [.ident "{file./run/s\"x#}".toList] ∧
    lex "{$A B}".toList = .ok [.lbrace, .ident "$A".toList, .ident "B".toList, .rbrace] ∧
    lex "{$A".toList = .ok [.lbrace, .ident "$A".toList] ∧
    lex "{envX}".toList = .ok [.lbrace, .ident "envX".toList, .rbrace] ∧
    lex "{$a}}".toList = .ok [.ident "{$a}".toList, .rbrace] := by
  decide +kernel

/-- test: string errors and the backslash-anything escape -/
theorem test_strings :
    lex "\"abc".toList = .error "unterminated string" ∧
    lex "\"a\nb\"".toList = .error "unterminated string" ∧
    lex "\"a\\".toList = .error "unterminated escape" ∧
    lex "\"a\\qb\"".toList = .ok [.str "aqb".toList] ∧
    lex "x\"y\"z".toList = .ok [.ident ['x'], .str ['y'], .ident ['z']] := by
  decide +kernel

/-- test: the hypotheses of the general theorems are satisfiable -/
theorem test_words :
    lex (List.intercalate [' '] ([("pull".toList, false), ("a b".toList, true), ("{env.T}".toList, false)].map
      (fun w => formatValue w.1 w.2))) =
      .ok [.ident "pull".toList, .str "a b".toList, .ident "{env.T}".toList] :=
  words_roundtrip _ (by
    intro w hw
    simp only [List.mem_cons, List.not_mem_nil, or_false] at hw
    rcases hw with rfl | rfl | rfl
    · exact .inr (by decide +kernel)
    · exact .inl rfl
    · exact .inr (by decide +kernel))

theorem test_paths :
    isUnquotedPathSafe "/hooks/a".toList = true ∧ isUnquotedPathSafe "hooks".toList = false ∧
    isUnquotedPathSafe "/a b".toList = false ∧ isUnquotedPathSafe "".toList = false := by
  decide +kernel

/-! ## axioms -/
#print axioms quote_lex_roundtrip
#print axioms unquoted_lex_roundtrip
#print axioms placeholder_lex_roundtrip
#print axioms readPlaceholder_eq_some_iff
#print axioms lexer_ident_form
#print axioms lexer_ident_shape
#print axioms lex_single_ident_iff
#print axioms isUnquotedValueSafe_iff
#print axioms isUnquotedValueSafe_of_identForm
#print axioms isUnquotedPathSafe_roundtrip
#print axioms isGap_brace_iff
#print axioms unquoted_safe_gap
#print axioms gap_not_roundtrip
#print axioms unquoted_safe_roundtrip_iff
#print axioms gap_witness_x
#print axioms gap_witness_vars
#print axioms gap_witness_empty_braces
#print axioms gap_witness_error
#print axioms value_roundtrip
#print axioms value_roundtrip'
#print axioms formatValue_total
#print axioms lex_append_space
#print axioms lex_append_sep
#print axioms lex_append_newline
#print axioms lex_append_space_needs_condition
#print axioms words_roundtrip
#print axioms words_roundtrip_newline
#print axioms lines_roundtrip
#print axioms lexAux_fuel
#print axioms lex_cons
#print axioms test_lex_config
#print axioms test_quote
#print axioms test_formatValue
#print axioms test_placeholders
#print axioms test_strings
#print axioms test_words
#print axioms test_paths

end Hk.Lex
