/-
SQLite: what a state-changing method does before and inside its write transaction, over facts regenerated from
internal/queue/sqlite.go on every run (`Generated/SqliteTx.lean`, go/ast). The sequential queue theorems treat each store
method as atomic; for SQLite that is `everything the method decides on is read inside BEGIN IMMEDIATE … COMMIT`, or the method
is a single statement whose WHERE clause re-checks the state (`Gen.sqlite_guards`).
-/
import HkModel.Generated.SqliteTx

namespace Hk.SqliteTx
open Hk.Gen.SqliteTx

def subset (xs ys : List String) : Bool := xs.all (fun x => ys.contains x)

def callsOf (name : String) : List String :=
  match txCalls.find? (fun p => p.1 == name) with
  | some p => p.2
  | none => ["<missing>"]

def beforeBegin (cs : List String) : List String := cs.takeWhile (· != "BEGIN")
def afterBegin (cs : List String) : List String := (cs.dropWhile (· != "BEGIN")).drop 1

/-- the methods through which messages and leases change state -/
def stateChanging : List String := ["EnqueueBatch", "dequeueOnce", "enqueueWithLimit", "withLease", "withLeaseBatch"]

/-- **nothing a state-changing transaction decides on is read before the transaction is open**: ahead of `BEGIN IMMEDIATE`
    there is only the clock, the retention sweep (its own statements) and — for the single enqueue — the unlocked depth
    estimate that is read again inside -/
theorem decisive_reads_inside_the_transaction :
    stateChanging.all (fun m => (callsOf m).contains "BEGIN" &&
      subset (beforeBegin (callsOf m)) (if m == "enqueueWithLimit" then ["activeDepthCount"] else ["now", "maybePrune"])) = true := by
  decide +kernel

/-- the depth limit is evaluated inside the transaction by both enqueue paths, the leases of a batch operation are looked up
    inside it, and expired leases are swept inside the dequeue's -/
theorem limits_and_leases_read_inside_the_transaction :
    (afterBegin (callsOf "enqueueWithLimit")).contains "activeDepthCountTx" = true ∧
    (afterBegin (callsOf "EnqueueBatch")).contains "activeDepthCountTx" = true ∧
    (afterBegin (callsOf "withLeaseBatch")).contains "lookupLeasesTx" = true ∧
    (afterBegin (callsOf "dequeueOnce")).contains "requeueExpiredLeases" = true := by decide +kernel

/-- a by-filter operation is two steps — select ids, then the BY-IDS operation of the same kind, whose single statement
    re-checks the state of every row (`Gen.sqlite_guards`) — and nothing else -/
theorem by_filter_acts_through_the_checked_operation :
    callsOf "CancelMessagesByFilter" = ["selectMessageIDsByFilter", "CancelMessages"] ∧
    callsOf "RequeueMessagesByFilter" = ["selectMessageIDsByFilter", "RequeueMessages"] ∧
    callsOf "ResumeMessagesByFilter" = ["selectMessageIDsByFilter", "ResumeMessages"] ∧
    callsOf "selectMessageIDsByFilter" = ["DB"] := by decide +kernel

/-- no other method of the store sends more than one statement outside a transaction, except the read-only ones and the
    retention sweep (each of whose statements is complete in itself) -/
theorem multi_statement_methods :
    subset ((txCalls.filter (fun p => !(p.2.contains "BEGIN") && (p.2.filter (· == "DB")).length ≥ 2)).map (·.1))
      ["Stats", "activeDepthCount", "init", "maybePrune"] = true := by decide +kernel


end Hk.SqliteTx
