/-
Critical sections of the pull layer's recent-lease cache (internal/pullapi/http.go), over regenerated facts (C04).
-/
import HkModel.Props.LockScopes

namespace Hk.LockScopes
open Hk.Gen.Locks

theorem recent_lease_cache_operations_are_single_critical_sections :
    fileOK "internal/pullapi/http.go" ["Server.rememberCompletedLease", "Server.isRecentlyCompletedLease"] [] = true := by decide +kernel

end Hk.LockScopes
