/-
  The SQLite store's admission test counts what C12 says it counts.

  `queue_limits.max_depth` is tested against `queued + leased` read from `queue_counters`, two integers maintained by the
  triggers of schemaV6. Theorems, over the triggers *as regenerated from the code on every run* (`Generated/Triggers.lean`):

  * `tracks_sound`      — a trigger set of the shape `Tracks` adds to its column exactly [new = st] − [old = st] on every event;
  * `counters_track`    — for every table, every sequence of row events (inserts, deletes, updates that assign `state` or
                          leave it alone), a counter that starts equal to the number of rows in its state stays equal to it;
  * `code_triggers_track`, `code_init_counts` — the code's triggers have that shape for (queued, "queued") and
                          (leased, "leased") and the initialising statement counts those states (`decide`);
  * `code_depth_is_active_count` — what `activeDepthCount` / `activeDepthCountTx` return is the number of rows that are
                          queued or leased, and their fallback counts the same states;
  * `active_eq_model`   — that number is the queue model's `countP isActive` of the same messages.
-/
import HkModel.Model.Counters
import HkModel.Model.Queue
import HkModel.Generated.Triggers

namespace Hk.Counters

theorem evalTerms_append (a b : List Term) (o n : String) :
    evalTerms (a ++ b) o n = evalTerms a o n + evalTerms b o n := by
  induction a with
  | nil => simp [evalTerms]
  | cons t a ih => simp only [evalTerms, List.cons_append, List.foldr_cons] at *; omega

theorem sumSigns_cons (t : Term) (ts : List Term) (b : Bool) :
    sumSigns (t :: ts) b = (if t.isNew == b then t.sign else 0) + sumSigns ts b := by
  unfold sumSigns
  by_cases h : (t.isNew == b) = true <;> simp [List.filter_cons, h]

/-- terms that all mention `st`: the sum collapses to (Σ NEW signs)·[new = st] + (Σ OLD signs)·[old = st] -/
theorem evalTerms_all (ts : List Term) (st o n : String) (h : ts.all (·.st == st) = true) :
    evalTerms ts o n = sumSigns ts true * ind (n == st) + sumSigns ts false * ind (o == st) := by
  induction ts with
  | nil => simp [evalTerms, sumSigns]
  | cons t ts ih =>
    simp only [List.all_cons, Bool.and_eq_true] at h
    have ht : t.st = st := by simpa using h.1
    have ih := ih h.2
    rw [sumSigns_cons, sumSigns_cons]
    simp only [evalTerms, List.foldr_cons] at ih ⊢
    rw [ih]
    cases hn : t.isNew <;> simp [ht, Int.add_mul] <;> omega

theorem delta_eq (trs : List Trigger) (col kind : String) (ss : Bool) (o n : String) :
    delta trs col kind ss o n = evalTerms (kindTerms trs col kind ss) o n := by
  unfold delta kindTerms
  induction (trs.filter (fires · kind ss)) with
  | nil => simp [evalTerms]
  | cons tr l ih => simp only [List.foldr_cons, List.flatMap_cons, evalTerms_append]; omega

/-- the shape `Tracks` is sound: on every event the column moves by [new = st] − [old = st] -/
theorem tracks_sound (trs : List Trigger) (col st : String) (h : Tracks trs col st = true) :
    (∀ n, delta trs col "insert" false "" n = ind (n == st)) ∧
    (∀ o, delta trs col "delete" false o "" = - ind (o == st)) ∧
    (∀ o n, delta trs col "update" true o n = ind (n == st) - ind (o == st)) ∧
    (∀ s, delta trs col "update" false s s = 0) := by
  unfold Tracks at h
  simp only [Bool.and_eq_true, beq_iff_eq] at h
  obtain ⟨⟨⟨⟨⟨⟨⟨⟨⟨⟨ai, i1⟩, i0⟩, ad⟩, d1⟩, d0⟩, au⟩, u1⟩, u0⟩, an⟩, n0⟩ := h
  refine ⟨?_, ?_, ?_, ?_⟩
  · intro n; rw [delta_eq, evalTerms_all _ st _ _ ai, i1, i0]; omega
  · intro o; rw [delta_eq, evalTerms_all _ st _ _ ad, d1, d0]; omega
  · intro o n; rw [delta_eq, evalTerms_all _ st _ _ au, u1, u0]; omega
  · intro s; rw [delta_eq, evalTerms_all _ st _ _ an]
    have : sumSigns (kindTerms trs col "update" false) false = - sumSigns (kindTerms trs col "update" false) true := by omega
    rw [this, Int.neg_mul]; omega

theorem ind_count_cons (s st : String) (l : List String) :
    ((s :: l).count st : Int) = l.count st + ind (s == st) := by
  by_cases h : s = st <;> simp [List.count_cons, ind, h]

theorem count_eraseIdx (l : List String) (i : Nat) (st : String) (h : i < l.length) :
    ((l.eraseIdx i).count st : Int) = l.count st - ind (l[i] == st) := by
  induction l generalizing i with
  | nil => simp at h
  | cons a l ih =>
    cases i with
    | zero => simp only [List.eraseIdx_cons_zero, List.getElem_cons_zero, ind_count_cons]; omega
    | succ i =>
      have hi : i < l.length := by simpa using h
      simp only [List.eraseIdx_cons_succ, List.getElem_cons_succ, ind_count_cons, ih i hi]; omega

theorem count_set (l : List String) (i : Nat) (s st : String) (h : i < l.length) :
    ((l.set i s).count st : Int) = l.count st - ind (l[i] == st) + ind (s == st) := by
  induction l generalizing i with
  | nil => simp at h
  | cons a l ih =>
    cases i with
    | zero => simp only [List.set_cons_zero, List.getElem_cons_zero, ind_count_cons]; omega
    | succ i =>
      have hi : i < l.length := by simpa using h
      simp only [List.set_cons_succ, List.getElem_cons_succ, ind_count_cons, ih i hi]; omega

/-- one event keeps `counter = number of rows in state st` -/
theorem step_tracks (trs : List Trigger) (col st : String) (h : Tracks trs col st = true)
    (rows rows' : List String) (c : Int) (e : Ev) (hc : c = rows.count st) (ha : applyEv rows e = some rows') :
    fireEv trs col rows c e = rows'.count st := by
  obtain ⟨hi, hd, hu, hn⟩ := tracks_sound trs col st h
  cases e with
  | insert s =>
    simp only [applyEv, Option.some.injEq] at ha
    subst ha; simp only [fireEv, hi, ind_count_cons, hc]
  | delete i =>
    simp only [applyEv] at ha
    split at ha
    · rename_i hlt
      simp only [Option.some.injEq] at ha
      subst ha
      simp only [fireEv, hd, count_eraseIdx _ _ _ hlt, hc]
      have : rows.getD i "" = rows[i] := by simp [List.getD, hlt]
      rw [this]; omega
    · simp at ha
  | update i ss s =>
    simp only [applyEv] at ha
    split at ha
    · rename_i hlt
      have hg : rows.getD i "" = rows[i] := by simp [List.getD, hlt]
      split at ha
      · simp at ha
      · rename_i hcond
        simp only [Option.some.injEq] at ha
        subst ha
        simp only [fireEv, count_set _ _ _ _ hlt, hc, hg]
        cases ss with
        | true => rw [hu]; omega
        | false =>
          have hs : rows[i] = s := by simpa using hcond
          rw [hs, hn]; omega
    · simp at ha

/-- **Every** sequence of row events on **every** table: a counter that equals the number of rows in its state keeps doing so. -/
theorem counters_track (trs : List Trigger) (col st : String) (h : Tracks trs col st = true)
    (evs : List Ev) (rows : List String) (c : Int) (hc : c = rows.count st)
    (rows' : List String) (c' : Int) (hr : run trs col rows c evs = some (rows', c')) :
    c' = rows'.count st := by
  induction evs generalizing rows c with
  | nil => simp only [run, Option.some.injEq, Prod.mk.injEq] at hr; obtain ⟨rfl, rfl⟩ := hr; exact hc
  | cons e es ih =>
    simp only [run] at hr
    split at hr
    · simp at hr
    · rename_i r1 ha
      exact ih r1 _ (step_tracks trs col st h rows r1 c e hc ha) hr

/-! ### the code's triggers (regenerated) -/

/-- the triggers written in sqlite.go today have the tracking shape for both counter columns -/
theorem code_triggers_track :
    Tracks Gen.triggers "queued" "queued" = true ∧ Tracks Gen.triggers "leased" "leased" = true := by decide

/-- the counters are initialised to the number of rows in exactly those states, and every trigger writes the counter table -/
theorem code_init_counts :
    Gen.counterInit = [("queued", "queued"), ("leased", "leased")] ∧
    Gen.triggers.all (fun t => t.target == Gen.counterTable && t.table == "queue_items") = true ∧
    -- no trigger writes a column the initialisation does not know
    Gen.triggers.all (fun t => t.sets.all (fun s => Gen.counterInit.any (·.1 == s.1))) = true := by decide

/-- a statement that assigns `state` always fires an update trigger, and nothing fires that the model does not know:
    the events are insert / delete / update only -/
theorem code_trigger_events :
    Gen.triggers.all (fun t => t.event == "insert" || t.event == "delete" || t.event == "update") = true ∧
    (Gen.triggers.filter (fun t => t.event == "update")).all (fun t => t.ofCols == ["state"] || t.ofCols == []) = true := by decide

/-- both readers select the two columns into two variables in the same order and return their sum; the fallback for a
    database without the counter table counts the same two states -/
theorem code_depth_readers :
    Gen.counterReaders.length ≥ 1 ∧
    Gen.counterReaders.all (fun (_, cols, vars, sum, fb) =>
      cols == ["queued", "leased"] && vars.length == 2 && (sum == vars || sum == vars.reverse) &&
      (fb == ["queued", "leased"] || fb == ["leased", "queued"])) = true := by decide

/-- every INSERT on queue_items is a plain one: a conflicting id fails the statement (no `OR REPLACE`, which would delete the old
    row without firing the delete trigger; no `OR IGNORE` / `ON CONFLICT`, which would make the insert event conditional) -/
theorem code_inserts_plain :
    Gen.itemInserts.length ≥ 1 ∧ Gen.itemInserts.all (fun (_, clause) => clause == "") = true := by decide

def active (s : String) : Bool := s == "queued" || s == "leased"

theorem active_count (rows : List String) :
    ((rows.filter active).length : Int) = rows.count "queued" + rows.count "leased" := by
  induction rows with
  | nil => simp
  | cons s rows ih =>
    by_cases hq : s = "queued"
    · subst hq; simp [List.filter_cons, active, List.count_cons] at ih ⊢; omega
    · by_cases hl : s = "leased"
      · subst hl; simp [List.filter_cons, active, List.count_cons] at ih ⊢; omega
      · simp [List.filter_cons, active, List.count_cons, hq, hl] at ih ⊢; omega

/-- **C12, SQLite admission.** After any sequence of row events on a table whose counters were right to begin with (they are
    initialised from COUNT(*)), the value `activeDepthCountTx` computes — `queued + leased` — is the number of rows that are
    queued or leased. -/
theorem code_depth_is_active_count (evs : List Ev) (rows rows' : List String) (q l q' l' : Int)
    (hq : q = rows.count "queued") (hl : l = rows.count "leased")
    (rq : run Gen.triggers "queued" rows q evs = some (rows', q'))
    (rl : run Gen.triggers "leased" rows l evs = some (rows', l')) :
    q' + l' = (rows'.filter active).length := by
  rw [active_count, counters_track _ _ _ code_triggers_track.1 evs rows q hq rows' q' rq,
      counters_track _ _ _ code_triggers_track.2 evs rows l hl rows' l' rl]

/-- … and that number is the queue model's `countP isActive` of the same messages (the model the C12 theorem is about). -/
theorem active_eq_model (ms : List Hk.Msg) :
    ((ms.map (fun m => m.st.toString)).filter active).length = Hk.countP Hk.isActive ms := by
  induction ms with
  | nil => rfl
  | cons m ms ih =>
    cases hm : m.st <;> simp [List.filter_cons, active, Hk.St.toString, hm, Hk.countP, Hk.isActive] at ih ⊢ <;> omega

/-! ### non-vacuity and negative witnesses -/

/-- a concrete run: insert queued, insert queued, lease the first, delete the second, cancel the first (assigning state),
    touch a row without assigning state -/
example : run Gen.triggers "queued" [] 0
    [.insert "queued", .insert "queued", .update 1 true "leased", .delete 0, .update 0 true "canceled", .update 0 false "canceled"]
    = some (["canceled"], 0) := by decide

example : run Gen.triggers "leased" ["queued"] 0 [.update 0 true "leased", .insert "queued"] = some (["queued", "leased"], 1) := by decide

/-- an update trigger that forgets the OLD term does not track (the shape is not vacuous) -/
def brokenTriggers : List Trigger :=
  [{ name := "u", event := "update", ofCols := ["state"], table := "queue_items", target := "queue_counters",
     sets := [("queued", [{ sign := 1, isNew := true, st := "queued" }])] }]

example : Tracks brokenTriggers "queued" "queued" = false := by decide
example : run brokenTriggers "queued" ["queued"] 1 [.update 0 true "leased"] = some (["leased"], 1) := by decide

end Hk.Counters
