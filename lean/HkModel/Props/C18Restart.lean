/-
C18 — which configuration changes are refused as "restart required": obligations over the facts regenerated from
internal/app/run.go (`requiresRestartForReload` and its `…Equal` helpers), internal/config and internal/dispatcher on every
run (`Generated/RestartCmp.lean`, go/ast).
-/
import HkModel.Generated.RestartCmp

namespace Hk.RestartCmp
open Hk.Gen.Restart

/-- every comparison sets the SAME expression of the configuration to be applied against the running one (no side is
    compared with itself, no two different settings are compared with each other) -/
def pairOK (p : String × String × String × String × String × String) : Bool :=
  let (b, x, a, b', x', a') := p
  b == b' && a == a' && [x, x'] == restartParams

theorem restart_compares_new_with_running : restartPairsSplit.all pairOK = true := by decide +kernel

/-- helpers that take whole configurations and delegate (their parameter type is not the record they compare) -/
def delegating : List String := ["dispatcherConfigEqual"]

def subset (xs ys : List String) : Bool := xs.all (fun x => ys.contains x)

/-- a helper over a record type reads the same fields on both sides, and reads EVERY field the type declares -/
def helperOK (h : String × String × Bool × List String × List String × List String × List String) : Bool :=
  let (name, _, known, fields, left, right, _) := h
  !known || delegating.contains name || (left == right && subset fields left)

theorem helpers_compare_every_field : helpers.all helperOK = true := by decide +kernel

/-- the documented restart-requiring settings are all compared (docs/configuration.md, "Changes that require a restart") -/
def expectedCompared : List String :=
  [".SharedListener", ".HasPullRoutes", ".HasDeliverRoutes", ".Ingress.Listen", ".Ingress.TLS", ".PullAPI.Prefix", ".AdminAPI.Prefix",
   ".PullAPI.Listen", ".PullAPI.GRPCListen", ".AdminAPI.Listen", ".PullAPI.MaxBatch", ".PullAPI.DefaultLeaseTTL", ".PullAPI.MaxLeaseTTL",
   ".PullAPI.DefaultMaxWait", ".PullAPI.MaxWait", ".PullAPI.TLS", ".AdminAPI.TLS", ".Defaults.MaxBodyBytes", ".Defaults.MaxHeaderBytes",
   ".Defaults.PublishPolicy", ".Observability", ".QueueLimits", ".QueueRetention", ".DeliveredRetention", ".DLQRetention"]

theorem documented_settings_compared :
    subset expectedCompared (restartPairsSplit.map (fun p => p.2.2.1)) = true ∧
    restartPairsSplit.any (fun p => p.1 == "queueBackendForCompiled(") = true ∧
    helpersCalled.contains "dispatcherConfigEqual" = true := by decide +kernel

/-- the dispatcher part: `dispatcherConfigEqual` reaches a helper for every record the dispatcher is built from, and
    `buildDispatchRoutes` fills every field those records declare (so that a field which is compared is also one that exists
    in what is compared) -/
def reach (fuel : Nat) (names : List String) : List String :=
  match fuel with
  | 0 => names
  | fuel + 1 =>
    let next := names ++ ((helpers.filter (fun h => names.contains h.1)).map (fun h => h.2.2.2.2.2.2)).flatten
    reach fuel next.eraseDups

theorem dispatcher_helpers_reached :
    subset ["egressPolicyEqual", "egressRulesEqual", "dispatchRoutesEqual", "dispatchTargetsEqual", "retryConfigEqual",
            "hmacSigningConfigEqual", "hmacSigningSecretVersionsEqual"] (reach 6 ["dispatcherConfigEqual"]) = true := by decide +kernel

theorem dispatcher_config_fully_built : dispatcherFieldsDeclared = dispatcherFieldsBuilt ∧ 15 ≤ dispatcherFieldsDeclared.length := by
  decide +kernel

end Hk.RestartCmp
