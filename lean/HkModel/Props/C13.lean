import HkModel.Props.Queue
/-! C13 — backends observationally equivalent: the contract is a *function* of state, operation and the
    implementation's free choices, so any two refinements agree on everything but those choices. -/
namespace Hk

/-- the contract is deterministic: equal state, operation and choice give equal response and state -/
theorem C13_deterministic (c : Cfg) (now : Int) (q : Q) (op : Op) (ch : Choice) (a b : Q × Resp)
    (ha : step c now q op ch = some a) (hb : step c now q op ch = some b) : a = b := by
  rw [ha] at hb; exact Option.some.inj hb

/-- operations that involve no free choice at all (everything except dequeue, enqueue under a full queue and the
    depth prune) do not look at the choice: their result is a function of state and operation alone -/
theorem C13_choice_free_ops (c : Cfg) (now : Int) (q : Q) (ch₁ ch₂ : Choice) (op : Op)
    (h : match op with
      | .lease _ _ | .leaseBatch _ _ | .byIds _ _ | .byFilter _ _ | .lookup _ | .restart => True
      | _ => False) :
    step c now q op ch₁ = step c now q op ch₂ := by
  cases op <;> simp at h <;> simp [step]

/-- and the *shape* of a dequeue answer never depends on the choice: the number of messages returned is
    `min(batch, ready)` for every legal pick -/
theorem C13_dequeue_count_choice_independent (c : Cfg) (now : Int) (q : Q) (route target : String) (batch ttl : Int)
    (ch₁ ch₂ : Choice) (q₁ q₂ : Q) (r₁ r₂ : Resp) (hg : ch₁.gone = ch₂.gone)
    (h₁ : step c now q (.dequeue route target batch ttl) ch₁ = some (q₁, r₁))
    (h₂ : step c now q (.dequeue route target batch ttl) ch₂ = some (q₂, r₂)) :
    ∃ p₁ p₂, r₁ = .items p₁ ∧ r₂ = .items p₂ ∧ p₁.length = p₂.length := by
  simp only [step, hg] at h₁ h₂
  cases hk : (prune c now q ch₂.gone).map (sweep c now) with
  | none => simp [hk] at h₁
  | some q1 =>
    simp only [hk] at h₁ h₂
    split at h₁
    · rename_i hl1
      split at h₂
      · rename_i hl2
        simp only [Option.some.injEq, Prod.mk.injEq] at h₁ h₂
        refine ⟨ch₁.picks, ch₂.picks, h₁.2.symm, h₂.2.symm, ?_⟩
        simp only [legalPicks, Bool.and_eq_true, beq_iff_eq] at hl1 hl2
        rw [hl1.1.1.1, hl2.1.1.1]
      · cases h₂
    · cases h₁

end Hk
