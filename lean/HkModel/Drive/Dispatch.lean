import HkModel.Drive.Json
import HkModel.Model.Dispatch
/-! driver mode `dispatch`: classification table, retry delay, delivery cycles, lease budget -/
namespace Hk.DriveDispatch
open Lean Hk.J Hk.Dispatch

def resOf (j : Json) : Res :=
  match str j "res" with
  | "status" => .status (int j "n")
  | "policy" => .policyDenied
  | _ => .err

def actStr : Act → String
  | .ack => "ack" | .retry => "retry" | .dead r => "dead:" ++ r

def absI (x : Int) : Int := if x < 0 then -x else x

/-- returns `ok` or a DIVERGE / PROP line -/
def processLine (line : String) : String :=
  match Json.parse line with
  | .error e => s!"BADLINE {e}"
  | .ok j =>
    match str j "k" with
    | "classify" =>
      let m := actStr (classify (resOf j) (int j "attempt") (int j "max"))
      let g := str j "got"
      -- `classify_spec` proves the model *is* the property's table, so a mismatch is a violation outright
      if m == g then "ok" else s!"PROP C06 classify in={line.trimAscii.toString} expected={m} impl={g}"
    | "delay" =>
      let base := int j "base"; let cap := int j "cap"; let a := nat j "attempt"
      let jn := int j "jn"; let jd := int j "jd"; let un := int j "un"; let ud := int j "ud"
      let got := int j "got"
      let m := retryDelay base cap a jn jd un ud
      let x := backoff base cap a
      -- float64 slack of the implementation: relative 2^-48 of X, plus 2 ns
      let tol := x / 281474976710656 + 2
      -- property bound on the implementation's own output, exact arithmetic (with the same float slack)
      let jn' := if jn > jd then jd else if jn < 0 then 0 else jn
      let lowOK := decide (x * (jd - jn') ≤ jd * (got + tol))
      let highOK := decide (jd * (got - tol) ≤ x * (jd + jn'))
      if !(lowOK && highOK && decide (0 ≤ got)) then s!"PROP C06 delay-bounds in={line.trimAscii.toString} X={x} got={got}"
      else if absI (m - got) ≤ tol then "ok"
      else s!"DIVERGE delay in={line.trimAscii.toString} model={m} impl={got}"
    | "cycle" =>
      let beh := (arr j "beh").map resOf
      let mx := int j "max"
      let behF : Nat → Res := fun k => beh.getD k .err
      let (s, f) := cycle behF mx (mx.toNat + 3) (int j "attempt0") 0
      let fs := match f with | some a => actStr a | none => "none"
      let gs := nat j "sends"; let gf := str j "final"
      -- property on the implementation's own numbers
      if gs > mx.toNat + 1 || !(gf == "ack" || gf == "dead:no_retry" || gf == "dead:max_retries" || gf == "dead:policy_denied") then
        s!"PROP C06 cycle in={line.trimAscii.toString}"
      else if s == gs && fs == gf then "ok"
      else s!"DIVERGE cycle in={line.trimAscii.toString} model=({s},{fs}) impl=({gs},{gf})"
    | "drun" =>
      -- the real dispatcher ran to quiescence: judge and compare every (message, target) pair
      let tag := s!"run={nat j "run"} backend={str j "backend"} concurrency={nat j "concurrency"}"
      if !(bool j "settled") then s!"DIVERGE drun {tag}: the dispatcher did not drain"
      else
        let bad := (arr j "msgs").findSome? fun m =>
          let beh := (arr m "beh").map resOf
          let mx := int m "max"
          let behF : Nat → Res := fun k => beh.getD k (.status 500)      -- beyond its script the target keeps answering 500
          let (s, f) := cycle behF mx (mx.toNat + 3) 0 0
          let fs := match f with | some a => actStr a | none => "none"
          let gs := nat m "sends"; let gf := str m "final"
          let atts := (arr m "attempts").map asInt
          let who := s!"msg={str m "id"} target={str m "target"} max={mx}"
          -- C07: every send carries exactly the headers and the payload the message was stored with
          let foreign := (strs m "carried").find? (fun c => c != str m "stored")
          if has m "stored" && foreign.isSome then
            some s!"PROP C07 pushed-request-differs-from-the-stored-message {who} stored={(str m "stored").quote} carried={(foreign.getD "").quote} {tag}"
          else
          if gs > mx.toNat + 1 then some s!"PROP C06 more-sends-than-the-retry-budget-allows {who} sends={gs} {tag}"
          else if !(gf == "ack" || gf == "dead:no_retry" || gf == "dead:max_retries" || gf == "dead:policy_denied") then
            some s!"PROP C06 message-not-settled-with-a-documented-outcome {who} final={gf} {tag}"
          else if atts != (List.range gs).map (fun (k : Nat) => ((k + 1 : Nat) : Int)) then
            some s!"PROP C06 attempt-log-does-not-number-the-sends {who} sends={gs} attempts={atts} {tag}"
          else if gf != fs then
            -- the outcome the classification table gives for this script under this budget
            -- (a policy denial that is not dead-lettered as policy_denied, or something else that is, concerns C16 as well)
            let also := if fs == "dead:policy_denied" || gf == "dead:policy_denied" then ",C16" else ""
            some s!"PROP C06{also} outcome-differs-from-the-classification-of-the-target's-answers {who} expected={fs} got={gf} sends={gs} {tag}"
          else if gs != s then some s!"PROP C06 number-of-sends-differs-from-the-retry-rule {who} expected={s} got={gs} {tag}"
          else none
        bad.getD "ok"
    | "ttl" =>
      let ts := (arr j "timeouts").map asInt
      let m := routeLeaseTTL ts (int j "slack") (int j "batch")
      if m == int j "got" then "ok" else s!"DIVERGE ttl in={line.trimAscii.toString} model={m}"
    | "dbatch" =>
      let m := routeDequeueBatch (int j "c") (int j "n")
      if m == int j "got" then "ok" else s!"DIVERGE dbatch in={line.trimAscii.toString} model={m}"
    | _ => "ok"

end Hk.DriveDispatch
