import HkModel.Drive.Queue
/-! driver mode `opfront`: operator mutations entered through the front ends (MCP tools on a SQLite file, Admin HTTP API).
    No model step is run here: the record (operation as it was meant, answer, complete snapshots before / after) is judged by
    the same observation predicate `C14.stepOK` that `P14.C14_model` proves of every model step. The stores stamp changed
    messages with their own wall clock, which the harness cannot inject through a front end: the due time of a message
    whose *state changed* is therefore read as "now". -/
namespace Hk.DriveOpFront
open Lean Hk Hk.J Hk.Obs Hk.DriveQueue

def processLine (line : String) : String :=
  match Json.parse line with
  | .error e => s!"BADLINE {e}"
  | .ok j =>
    -- C20 through the front end: a mutating MCP call writes exactly one audit record, whose result is the tool's own verdict;
    -- a call the tool does not report as failed comes with a result
    let audits := strs j "audit"
    let toolErr := bool j "toolIsError"
    if bool j "toolAnswered" && audits != [if toolErr then "error" else "success"] then
      s!"PROP C20 audit-record-does-not-say-what-the-tool-answered case={nat j "case"} via={str j "via"} kind={str j "k"} toolIsError={toolErr} audit={audits} answer={(str j "raw").take 120}"
    else if bool j "toolAnswered" && !toolErr && str (obj j "resp") "t" != "count" then
      s!"PROP C20,C15 tool-reported-success-without-a-result case={nat j "case"} via={str j "via"} kind={str j "k"} audit={audits} dropAt={nat j "dropAt"} {str j "dropMode"}"
    else
    if str j "k" == "frontpub3" then
      -- one MCP messages_publish call spanning three managed endpoints (three Admin calls behind it): accepted ⇒ every item
      -- is queued on its endpoint's route; failed ⇒ no item of the call is left deliverable (queued or leased) and nothing
      -- else changed
      let tag := s!"case={nat j "case"} via={str j "via"} answer={(str j "raw").take 160}"
      let before := sortMsgs ((arr j "before").map msgOfJson)
      let after := sortMsgs ((arr j "after").map msgOfJson)
      let items := arr j "items"
      let fresh := items.filter (fun it => !before.any (fun b => b.id == str it "id"))
      let othersSame := before.all (fun b => after.contains b)
      if !othersSame then s!"PROP C15,C02 multi-endpoint-publish-changed-other-messages {tag}"
      else if str (obj j "resp") "t" == "count" then
        (if fresh.length == items.length && items.all (fun it => after.any (fun m => m.id == str it "id" && m.route == str it "route" && m.st == .queued && m.payload == str it "payload")) then "ok"
         else s!"PROP C15 multi-endpoint-publish-accepted-but-items-missing-or-misplaced {tag}")
      else
        match fresh.find? (fun it => after.any (fun m => m.id == str it "id" && (m.st == .queued || m.st == .leased))) with
        | some it => s!"PROP C15 failed-multi-endpoint-publish-left-an-item-deliverable item={str it "id"} {tag}"
        | none => "ok"
    else
    if str j "k" == "frontpub" then
      -- a publish entered through a front end: all items stored exactly as published (route of the selector, one target,
      -- queued, payload, headers, and the received / due times that were asked for), or nothing at all
      let tag := s!"case={nat j "case"} via={str j "via"} selector={(obj j "selector").compress} answer={(str j "raw").take 160}"
      let before := sortMsgs ((arr j "before").map msgOfJson)
      let after := sortMsgs ((arr j "after").map msgOfJson)
      let items := arr j "items"
      if bool j "lostAnswer" then
        -- the Admin API carried the request out but its answer was lost on the way to the MCP tool: whatever the tool then
        -- reports, the items are in the queue once each, or not at all
        let stored := items.filter (fun it => after.any (fun m => m.id == str it "id"))
        if (stored.isEmpty || stored.length == items.length) && after.length == before.length + stored.length && before.all (fun b => after.contains b) then "ok"
        else s!"PROP C15,C02 publish-with-a-lost-answer-left-a-partial-or-repeated-effect {tag}"
      else
      if str (obj j "resp") "t" != "count" then
        (if after == before then "ok" else s!"PROP C15,C02 refused-publish-changed-the-queue {tag}")
      else if nat (obj j "resp") "changed" != items.length then s!"PROP C15 publish-answered-with-another-count-than-items {tag}"
      else
        let bad := items.findSome? fun it =>
          match after.find? (fun m => m.id == str it "id") with
          | none => some s!"item {str it "id"} is not in the queue"
          | some m =>
            if m.route != str it "route" then some s!"item {m.id}: route {m.route}, published for {str it "route"}"
            else if m.target != "pull" || m.st != .queued then some s!"item {m.id}: target {m.target} state {repr m.st}"
            else if m.payload != str it "payload" then some s!"item {m.id}: payload differs"
            else if m.headers != str it "headers" then some s!"item {m.id}: headers differ"
            else if int it "recv" != 0 && m.recv != int it "recv" then some s!"item {m.id}: received_at {m.recv}, asked {int it "recv"}"
            else if int it "next" != 0 && m.next != int it "next" then some s!"item {m.id}: next_run_at {m.next}, asked {int it "next"} (a scheduled message is due at once)"
            else none
        let others := before.all (fun b => after.contains b) && after.length == before.length + items.length
        match bad with
        | some why => s!"PROP C05,C07,C15 published-message-differs-from-what-was-published {why} {tag}"
        | none => if others then "ok" else s!"PROP C15,C02 publish-changed-other-messages {tag}"
    else
    if str j "k" != "front" then "ok" else
    let tag := s!"case={nat j "case"} via={str j "via"} op={(obj j "op").compress} answer={(str j "raw").take 160}"
    let before := sortMsgs ((arr j "before").map msgOfJson)
    let after := sortMsgs ((arr j "after").map msgOfJson)
    match opOfJson (obj j "op") with
    | none => s!"BADLINE unknown op {tag}"
    | some op =>
      if bool j "lostAnswer" then
        -- the Admin API carried the operation out but its answer was lost on the way to the MCP tool: whatever the tool then
        -- does and reports, the queue shows the operation applied at most ONCE (a silent retry of a mutating call applies a
        -- `limit`-ed selection twice)
        let changedN := (before.filter (fun m => find after m.id != some m)).length
        let after' := after.map fun m' => match find before m'.id with
          | some m => if m.st != m'.st then { m' with next := 0 } else m'
          | none => m'
        let preview := match op with | .byFilter _ f => f.preview | _ => false
        let r : Rec := { cfg := {}, now := 0, before := before, op := op, resp := .count (if preview then 0 else changedN) changedN preview, after := after' }
        if after == before || C14.stepOK r then "ok"
        else s!"PROP C14 operation-applied-more-than-once-after-a-lost-answer changed={changedN} {tag}"
      else
      if str (obj j "resp") "t" != "count" then
        -- refused (or failed): nothing may have changed
        if after == before then
          "ok"
        else s!"PROP C14 refused-operation-changed-the-queue {tag}"
      else
        let resp : Resp := .count (nat (obj j "resp") "changed") (nat (obj j "resp") "matched") (bool (obj j "resp") "preview")
        if str j "expectRefusal" != "" then s!"PROP C14 operation-on-{str j "expectRefusal"}-was-carried-out {tag}" else
        let after' := after.map fun m' => match find before m'.id with
          | some m => if m.st != m'.st then { m' with next := 0 } else m'
          | none => m'
        let r : Rec := { cfg := {}, now := 0, before := before, op := op, resp := resp, after := after' }
        if C14.stepOK r then "ok"
        else
          let changed := (before.filter (fun m => find after m.id != some m)).map (·.id)
          -- the MCP tools take a different road per backend: a defect on one road makes the same call behave differently
          -- depending only on `queue { backend … }`
          let also := if (str j "via").startsWith "mcp-" then ",C13" else ""
          s!"PROP C14{also} front-end-mutation-differs-from-the-selection-it-was-given changed={changed} {tag}"

end Hk.DriveOpFront
