import HkModel.Drive.Queue
/-! driver mode `opfront`: operator mutations entered through the front ends (MCP tools on a SQLite file, Admin HTTP API).
    No model step is run here: the record (operation as it was meant, answer, complete snapshots before / after) is judged by
    the same observation predicate `C14.stepOK` that `P14.C14_model` proves of every model step. The stores stamp changed
    messages with their own wall clock, which the harness cannot inject through a front end: the due time of a message
    whose *state changed* is therefore read as "now". -/
namespace Hk.DriveOpFront
open Lean Hk Hk.J Hk.Obs Hk.DriveQueue

def processLine (line : String) : String :=
  match Json.parse line with
  | .error e => s!"BADLINE {e}"
  | .ok j =>
    if str j "k" != "front" then "ok" else
    let tag := s!"case={nat j "case"} via={str j "via"} op={(obj j "op").compress} answer={(str j "raw").take 160}"
    let before := sortMsgs ((arr j "before").map msgOfJson)
    let after := sortMsgs ((arr j "after").map msgOfJson)
    match opOfJson (obj j "op") with
    | none => s!"BADLINE unknown op {tag}"
    | some op =>
      if str (obj j "resp") "t" != "count" then
        -- refused (or failed): nothing may have changed
        if after == before then
          "ok"
        else s!"PROP C14 refused-operation-changed-the-queue {tag}"
      else
        let resp : Resp := .count (nat (obj j "resp") "changed") (nat (obj j "resp") "matched") (bool (obj j "resp") "preview")
        if str j "expectRefusal" != "" then s!"PROP C14 operation-on-{str j "expectRefusal"}-was-carried-out {tag}" else
        let after' := after.map fun m' => match find before m'.id with
          | some m => if m.st != m'.st then { m' with next := 0 } else m'
          | none => m'
        let r : Rec := { cfg := {}, now := 0, before := before, op := op, resp := resp, after := after' }
        if C14.stepOK r then "ok"
        else
          let changed := (before.filter (fun m => find after m.id != some m)).map (·.id)
          s!"PROP C14 front-end-mutation-differs-from-the-selection-it-was-given changed={changed} {tag}"

end Hk.DriveOpFront
