import HkModel.Drive.Json
import HkModel.Model.Crash
/-! driver mode `crash`: one record per real process death; evaluates `Hk.Crash.crashCheck` on what the reopened
    database holds and checks that this content is one the model can produce (some crash point of the same script). -/
namespace Hk.DriveCrash
open Lean Hk.J Hk.Crash

def stOf? : String → CSt
  | "queued" => .queued
  | "leased" => .queued      -- a lease is a delivery claim on a queued message; it lapses on its own
  | "delivered" => .delivered
  | "dead" => .dead
  | "canceled" => .canceled
  | _ => .canceled

def msgOfJson (j : Json) : CMsg := { key := str j "key", target := str j "target", st := stOf? (str j "st") }

/-- (request, acknowledged, refused) — `none` for operations that leave no durable trace the property talks about -/
def sendOfJson (j : Json) : Option (CReq × Bool × Bool) :=
  let done := bool j "done"
  let status := nat j "status"
  match str j "kind" with
  | "ingress" => some (.ingress (str j "body") (strs j "targets"), done && status == 202, done && status != 202)
  | "publish" => some (.publish (strs j "ids") "pull", done && status == 200, done && status != 200)
  | "ack" => some (.leaseOp .ack (str j "key") "pull", done && status == 204, done && status != 204)
  | "nack" => some (.leaseOp .nack (str j "key") "pull", done && status == 204, done && status != 204)
  | "dead" => some (.leaseOp .dead (str j "key") "pull", done && status == 204, done && status != 204)
  | _ => none

def sortMsgs (ms : List CMsg) : List CMsg :=
  ms.mergeSort fun a b => a.key < b.key || (a.key == b.key && (a.target < b.target || (a.target == b.target && (repr a.st).pretty ≤ (repr b.st).pretty)))

/-- is the observed content (and the set of acknowledged requests) what the model yields at some crash point? -/
def matchesSomePrefix (script : List CReq) (ackedFlags : List Bool) (after : List CMsg) : Bool :=
  let evs := progs 0 script
  let want := sortMsgs after
  (List.range (evs.length + 1)).any fun k =>
    let p := evs.take k
    sortMsgs (recover p) == want &&
      -- every request the client saw acknowledged is acknowledged in the model run (the converse need not hold: the
      -- process can die after the handler decided and before the harness saw the answer)
      (ackedFlags.zipIdx.all fun a => !a.1 || acked p a.2)

def processLine (line : String) : String :=
  match Json.parse line with
  | .error e => s!"BADLINE {e}"
  | .ok j =>
    if str j "k" != "crash" then "ok" else
    let tag := s!"script={nat j "script"} kill={str j "kill"}"
    if str j "reopen" != "ok" then s!"PROP C01 store-does-not-reopen-after-crash {tag} err={str j "reopen"}"
    else if str j "integrity" != "ok" then s!"PROP C01 database-corrupt-after-crash {tag} integrity={str j "integrity"}"
    else
    -- an operation on a lease that was acknowledged as acked just before: it must be refused. Acknowledged, it promises a
    -- redelivery / a dead-letter entry of a message that is delivered, which no restart can make true
    match (arr j "sends").find? (fun s => bool s "spent" && bool s "done" && nat s "status" == 204) with
    | some s => s!"PROP C01 operation-on-a-spent-lease-acknowledged {tag} kind={str s "kind"} key={str s "key"}"
    | none =>
    let sends := ((arr j "sends").filter (fun s => !bool s "spent")).filterMap sendOfJson
    let script := sends.map (·.1)
    let sent : List Sent := sends.map fun s => ⟨s.1, s.2.1⟩
    let after0 := (arr j "after").map msgOfJson
    -- a settled message may be gone: delivered / dead-letter retention prunes by age. For a message an ack or dead-letter
    -- was sent for, absence is read as that operation's result (it is not queued again, which is what the property forbids)
    let after := after0 ++ sends.filterMap fun s => match s.1 with
      | .leaseOp .ack key t => if count after0 key t == 0 then some ⟨key, t, .delivered⟩ else none
      | .leaseOp .dead key t => if count after0 key t == 0 then some ⟨key, t, .dead⟩ else none
      | _ => none
    let kill := str j "kill"
    if kill != "" && !kill.startsWith "@" && !(bool j "killed") && nat j "failenq" == 0 then s!"DIVERGE crash {tag}: the child was not killed at the hook point"
    else if !wellFormed script then s!"DIVERGE crash {tag}: harness script is not well-formed for the model"
    else match crashCheck sent after with
    | some clause => s!"PROP C01 {clause} {tag}"
    | none =>
      -- a refused publish stores nothing
      if sends.any (fun s => match s.1 with
          | .publish ids t => s.2.2 && ids.any (fun id => count after id t != 0)
          | _ => false) then s!"PROP C01 refused-publish-stored {tag}"
      else
      -- offered again: an acknowledged message that is still queued and was not postponed is handed out by Dequeue
      let offered := strs j "offered"
      let postponed := fun (key : String) => sends.any fun s => match s.1 with
        | .leaseOp _ k _ => k == key
        | _ => false
      let rawAfter := arr j "after"
      let missing := rawAfter.find? fun m =>
        str m "st" == "queued" && !postponed (str m "key") && !offered.contains (str m "key" ++ "\x00" ++ str m "target")
      match missing with
      | some m => s!"PROP C01 stored-message-not-offered-after-restart {tag} key={str m "key"} target={str m "target"}"
      | none =>
        if sends.any (·.2.2) then "ok"   -- a refused request: outside the modelled programs
        else if matchesSomePrefix script (sends.map (·.2.1)) after then "ok"
        else s!"DIVERGE crash {tag}: the reopened store matches no crash point of the model run"

end Hk.DriveCrash
