import HkModel.Drive.Json
import HkModel.Model.Reload
import HkModel.Model.FileAtomic
import HkModel.Generated.ReloadSteps
/-! driver mode `reload`: reload cases, request cases and file-replacement cases of the C18 harness -/
namespace Hk.DriveReload
open Lean Hk.J Hk.Reload Hk.FileAtomic

def optStr (j : Json) (k : String) : Option String := ((j.getObjVal? k).bind (·.getStr?)).toOption

/-- the model's expectation for a reload attempt whose give-up point of the reported kind fails: the regenerated
    event list run on a live state at version 0 with the new version 1 -/
def modelAttempt (fails : Bool) : Live × Bool :=
  let l0 := initLive ((writes Gen.reloadEvents).flatten.eraseDups) 0
  -- fail at the last give-up point (any give-up point yields the same result when `failsFirst` holds; the last one
  -- is the most demanding when it does not)
  let lastFail := (Gen.reloadEvents.zipIdx.filter (·.1.isFail)).getLast?.map (·.2)
  run Gen.reloadEvents (if fails then lastFail else none) l0 1

def firstDiff (a b : List String) : Nat := ((a.zip b).zipIdx.find? (fun p => p.1.1 != p.1.2)).map (·.2) |>.getD 0

def snapOK (old : Option String) (d : Dir String) (p : Json) : Bool :=
  let target := optStr p "target"
  let temps := strs p "temps"
  target == d.target && temps == (match d.temp with | some t => [t] | none => []) &&
    (target.isNone || target == old || bool p "compiles")

def processLine (line : String) : String :=
  match Json.parse line with
  | .error e => s!"BADLINE {e}"
  | .ok j =>
    match str j "k" with
    | "cfgerror" =>
      -- the fixed texts of the dispatcher sweep must compile and its control edit must reload: otherwise the sweep shows nothing
      if (str j "stage").startsWith "dispatcher" then s!"DIVERGE reload sweep not applicable: {str j "stage"}: {str j "err"}" else "ok"
    | "reload" =>
      let fail := str j "fail"
      let before := strs j "before"; let after := strs j "after"
      let n1 := strs j "n1"; let n2 := strs j "n2"
      let ok := bool j "ok"
      let c := nat j "case"
      let probes := strs j "probes"
      let (ml, mok) := modelAttempt (fail != "none")
      if fail != "none" then
        if ok then
          -- a reload reported as applied while the dispatcher (built once) keeps signing / checking by the old configuration
          let e := str j "restartEdit"
          let also := if (e.splitOn "sign").length > 1 then ",C17" else if (e.splitOn "egress").length > 1 then ",C16"
                      else if (e.splitOn "pull_api.").length > 1 then ",C05,C03"
                      else if (e.splitOn "publish_policy").length > 1 then ",C15"
                      else if (e.splitOn "queue_limits").length > 1 || (e.splitOn "retention").length > 1 then ",C12,C02" else ""
          s!"PROP C18{also} failed-reload-reported-ok case={c} fail={fail} {e}"
        else if after != before then
          s!"PROP C18 failed-reload-changed-behaviour case={c} fail={fail} probe={probes.getD (firstDiff before after) ""} before={before.getD (firstDiff before after) ""} after={after.getD (firstDiff before after) ""}"
        else if mok || !(uniform ml 0) then s!"DIVERGE reload case={c}: model of reloadConfig changes state on a failed attempt"
        else "ok"
      else
        if !ok then s!"DIVERGE reload case={c}: valid configuration did not reload"
        else if after != n1 then
          s!"PROP C18 successful-reload-not-entirely-new case={c} probe={probes.getD (firstDiff n1 after) ""} new={n1.getD (firstDiff n1 after) ""} after={after.getD (firstDiff n1 after) ""}"
        else
          let mids := arr j "mid"
          let bad := mids.find? fun m => let v := strs m "v"; !(v == before || v == n1 || v == n2)
          match bad with
          | some m =>
            let v := strs m "v"
            let idx := ((v.zip (before.zip (n1.zip n2))).zipIdx.find? (fun p => p.1.1 != p.1.2.1 && p.1.1 != p.1.2.2.1 && p.1.1 != p.1.2.2.2)).map (·.2)
            match idx with
            | some i => s!"PROP C18 reload-window-mixture case={c} at={str m "label"} probe={probes.getD i ""} old={before.getD i ""} new={n1.getD i ""} got={v.getD i ""}"
            | none => s!"PROP C18 reload-window-not-one-instant case={c} at={str m "label"} (some decisions already new, others still old)"
          | none =>
            if mids.length != (writes Gen.reloadEvents).length then
              s!"DIVERGE reload case={c}: {mids.length} observation points, model has {(writes Gen.reloadEvents).length} write sections"
            else if !mok || !(uniform ml 1) then s!"DIVERGE reload case={c}: model of reloadConfig does not reach the new version"
            else "ok"
    | "twin" =>
      let u := strs j "u"; let t := strs j "t"
      let c := nat j "case"
      if bool j "ok" then s!"PROP C18 failed-reload-reported-ok case={c} fail={str j "fail"} (twin)"
      else if u != t then
        s!"PROP C18 failed-reload-changed-stateful-behaviour case={c} fail={str j "fail"} step={firstDiff u t} untouched={u.getD (firstDiff u t) ""} after-failed-reload={t.getD (firstDiff u t) ""}"
      else "ok"
    | "request" =>
      match (arr j "mix").head? with
      | some m => s!"PROP C18 request-straddles-reload case={nat j "case"} gate={str m "gate"} probe={str m "probe"} old={str m "old"} new={str m "new"} got={str m "got"}"
      | none => "ok"
    | "file" =>
      let old := optStr j "old"
      let c := nat j "case"
      let variant := str j "variant"
      let outcome := str j "outcome"
      let points := arr j "points"
      let fin := obj j "final"
      let d0 : Dir String := { target := old, temp := none }
      let liveSame := !(has j "liveBefore") || str j "liveBefore" == str j "liveAfter"
      if variant == "mgmt.upsert_pending_restart" && outcome == "applied" then
        s!"PROP C18 restart-requiring-edit-pending-in-the-file-was-switched-live-by-a-management-change case={c}"
      else
      if outcome != "applied" && !liveSame then
        s!"PROP C18 failed-change-altered-running-config case={c} variant={variant} outcome={outcome} before={str j "liveBefore"} after={str j "liveAfter"}"
      else if outcome == "error" then
        -- the replacement itself failed (here: the temp file vanished before the rename): the old content must still be there
        if optStr fin "target" != old then s!"PROP C18 failed-replacement-lost-the-old-content case={c} variant={variant}"
        else if points.any (fun p => optStr p "target" != old) then s!"PROP C18 failed-replacement-exposed-other-content case={c} variant={variant}"
        else if (variant.splitOn ".").getD 1 "" == "rename_fails" && points.isEmpty then s!"DIVERGE file case={c} variant={variant}: no hook point observed"
        else "ok"
      else if outcome == "rejected" then
        if points.isEmpty && optStr fin "target" == old && (strs fin "temps").isEmpty then "ok"
        else s!"PROP C18 rejected-change-touched-file case={c} variant={variant}"
      else
        let new := str j "new"
        -- hook points sit after create, chmod, write, sync, close, rename (the directory fsync has none)
        let one (d : Dir String) (content : String) := (trace "" content d steps).take 6
        let t1 := one d0 new
        let d1 := finish "" new d0 steps
        let expected := if outcome == "failed" then t1 ++ one d1 (old.getD "") else t1
        let dEnd := if outcome == "failed" then finish "" (old.getD "") d1 steps else d1
        if points.length != expected.length then
          s!"DIVERGE file case={c} variant={variant}: {points.length} points observed, model has {expected.length}"
        else match (points.zip expected).zipIdx.find? (fun p => !snapOK old p.1.2 p.1.1) with
          | some p =>
            let tgt := optStr p.1.1 "target"
            if tgt != old && tgt != some new then
              s!"PROP C18 file-neither-old-nor-new case={c} variant={variant} point={str p.1.1 "label"}"
            else if tgt.isSome && tgt != old && !(bool p.1.1 "compiles") then
              s!"PROP C18 file-content-does-not-compile case={c} variant={variant} point={str p.1.1 "label"}"
            else s!"DIVERGE file case={c} variant={variant} point={p.2} {str p.1.1 "label"}"
          | none =>
            if optStr fin "target" != dEnd.target then
              (if outcome == "failed" then s!"PROP C18 failed-change-not-rolled-back case={c} variant={variant}"
               else s!"PROP C18 applied-change-not-in-file case={c} variant={variant}")
            else if !(strs fin "temps").isEmpty then s!"DIVERGE file case={c} variant={variant}: temp file left behind"
            else "ok"
    | "crash" =>
      let old := optStr j "old"; let new := str j "new"
      let c := nat j "case"
      let k := match str j "point" with
        | "created" => 1 | "chmod" => 2 | "written" => 3 | "synced" => 4 | "closed" => 5 | "renamed" => 6 | _ => 0
      let d := finish "" new ({ target := old, temp := none } : Dir String) (steps.take k)
      let fin := obj j "final"
      let tgt := optStr fin "target"
      if !(bool j "killed") then s!"DIVERGE crash case={c}: child was not killed at {str j "point"}"
      else if tgt != old && tgt != some new then s!"PROP C18 crash-file-neither-old-nor-new case={c} point={str j "point"}"
      else if tgt != d.target then s!"DIVERGE crash case={c} point={str j "point"}"
      else "ok"
    | _ => "ok"

end Hk.DriveReload
