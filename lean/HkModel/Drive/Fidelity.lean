import HkModel.Drive.Json
import HkModel.Model.Fidelity
/-! driver mode `fidelity` -/
namespace Hk.DriveFidelity
open Lean Hk.J Hk.Fidelity

def pairsOf (j : Json) (k : String) : List (String × String) :=
  (arr j k).map (fun p => match asArr p with | [a, b] => (asStr a, asStr b) | _ => ("", ""))
def multiOf (j : Json) (k : String) : List (String × List String) :=
  (arr j k).map (fun p => match asArr p with | [a, b] => (asStr a, (asArr b).map asStr) | _ => ("", []))

def hexVal (c : Char) : Nat :=
  if c.isDigit then c.toNat - 48 else if 'a' ≤ c && c ≤ 'f' then c.toNat - 87 else 0
def bytesOfHex (s : String) : List UInt8 :=
  let rec go : List Char → List UInt8
    | a :: b :: rest => UInt8.ofNat (hexVal a * 16 + hexVal b) :: go rest
    | _ => []
  go s.toList

def sortPairs (l : List (String × String)) : List (String × String) := l.mergeSort (fun a b => a.1 ≤ b.1)

def processLine (line : String) : String :=
  match Json.parse line with
  | .error e => s!"BADLINE {e}"
  | .ok j =>
    if str j "k" == "fidmulti" then
      -- several accepted messages read in one batch: each of them exactly as accepted (payload, stored headers, and a
      -- trace that is the ingress trace, not the headers)
      let extra := pairsOf j "extra"
      let tag := s!"backend={str j "backend"} via={str j "via"} forwardAuth={bool j "forwardAuth"}"
      let want := (arr j "sent").filterMap fun s =>
        if nat s "status" != 202 then none
        else (copyHeaders (multiOf s "reqHeaders") 65536 extra).map fun h => (str s "body", sortPairs h)
      let got := (arr j "got").map fun g => (str g "payload", sortPairs (pairsOf g "headers"))
      let key := fun (x : String × List (String × String)) => x.1 ++ "|" ++ toString x.2
      let sortK := fun (l : List (String × List (String × String))) => l.mergeSort (fun a b => key a ≤ key b)
      if (arr j "got").any (fun g => (pairsOf g "trace").any (fun p => p.1 != "remote_addr" && p.1 != "path")) then
        s!"PROP C07 delivered-trace-carries-foreign-fields {tag}"
      else if sortK got != sortK want then
        let missing := (sortK want).find? (fun w => !got.contains w)
        s!"PROP C07 batch-read-differs-from-what-was-accepted {tag} accepted-but-not-delivered-as-such={repr missing} delivered={repr (sortK got)}"
      else "ok"
    else
    if str j "k" != "fid" then "ok" else
    let tag := (line.trimAscii.toString.take 900).toString
    let mode := str j "mode"
    let status := nat j "status"
    let stored := nat j "stored"
    let bodyHex := str j "body"
    let body := bytesOfHex bodyHex
    let fitsBody := body.length ≤ nat j "maxBody"
    let expHeaders : Option (List (String × String)) :=
      if mode == "publish" then some (pairsOf j "pubHeaders")
      else copyHeaders (multiOf j "reqHeaders") (nat j "maxHeaders") (pairsOf j "extra")
    let accepted := status == 202 || status == 200
    if !fitsBody || expHeaders.isNone then
      (if accepted || stored != 0 then s!"PROP C07,C12 over-limit-request-stored in={tag}" else "ok")
    else if !accepted || stored != 1 then s!"DIVERGE not-accepted in={tag}"
    else
      let sh := sortPairs (pairsOf j "storedHeaders")
      if str j "storedPayload" != bodyHex then s!"PROP C07 stored-payload-differs in={tag}"
      else if sh.any (fun p => sensitive p.1) then s!"PROP C07 sensitive-header-persisted in={tag}"
      else if sh != sortPairs (expHeaders.getD []) then s!"PROP C07 stored-headers-differ in={tag} expected={repr (sortPairs (expHeaders.getD []))}"
      else
        let b64 := Hk.Base64.encodeStr body
        let bad := (arr j "deliveries").any (fun d =>
          bool d "missing" ||
          (if mode == "pull" || mode == "publish" then
             str d "b64" != b64 || Hk.Base64.decodeStr (str d "b64") != some body
           else str d "payload" != bodyHex) ||
          -- every stored header reaches the consumer unchanged (a push request may carry more: Go adds its own)
          !(sh.all (fun p => (pairsOf d "headers").any (fun q => q.1 == p.1 && q.2 == p.2))) ||
          ((mode != "push") && sortPairs (pairsOf d "headers") != sh))
        if bad then s!"PROP C07 delivered-differs-from-accepted in={tag}" else "ok"

end Hk.DriveFidelity
