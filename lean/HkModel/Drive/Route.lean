import HkModel.Drive.Json
import HkModel.Model.Route
/-! driver mode `ingress`: route resolution cases -/
namespace Hk.DriveRoute
open Lean Hk.J Hk.Route

def chanOf : String → Channel
  | "inbound" => .inbound | "outbound" => .outbound | "internal" => .internal | _ => .default_

def pairOf (j : Json) : String × String := match asArr j with | [a, b] => (asStr a, asStr b) | _ => ("", "")
def multiOf (j : Json) : String × List String :=
  match asArr j with | [a, b] => (asStr a, (asArr b).map asStr) | _ => ("", [])

def routeOf (j : Json) : RouteCfg × List String :=
  ({ channel := chanOf (str j "channel"), path := str j "path", methods := strs j "methods", hosts := strs j "hosts",
     headers := (arr j "headers").map pairOf, headerExists := strs j "headerExists", query := (arr j "query").map pairOf,
     queryExists := strs j "queryExists",
     remoteIPs := (arr j "remoteIPs").map (fun p => { v4 := bool p "v4", base := nat p "base", bits := nat p "bits" }) },
   strs j "targets")

def reqOf (j : Json) : Req :=
  let rem := obj j "remote"
  { path := str j "path", method := str j "method", host := str j "host",
    headers := (arr j "headers").map multiOf, query := (arr j "query").map multiOf,
    -- a zoned address never lies inside a prefix: model it as unparsable for matching purposes
    remote := if rem.isNull || has rem "zone" then none else some { v4 := bool rem "v4", n := nat rem "n" } }

def processLine (line : String) : String :=
  match Json.parse line with
  | .error e => s!"BADLINE {e}"
  | .ok j =>
    let tag := line.trimAscii.toString
    match str j "k" with
    | "normhost" =>
      let m := normalizeHost (str j "in")
      if m == str j "got" then "ok" else s!"DIVERGE normhost in={(str j "in").quote} model={m.quote} impl={(str j "got").quote}"
    | "route" =>
      let rts := (arr j "routes").map routeOf
      let routes := rts.map (·.1)
      let rq := reqOf (obj j "req")
      let got := obj j "got"
      let gotResolved : Option String := if (obj got "resolved").isNull then none else some (str got "resolved")
      let status := nat got "status"
      let enq := (arr got "enqueued").map pairOf
      let m := outcome routes rq
      let mRoute : Option String := match m with | .route p => some p | _ => none
      -- property clauses on the implementation's own answer
      let nonInbound := match gotResolved with
        | some p => rts.any (fun (r, _) => r.path == p && !r.channel.servesIngress)
        | none => false
      let enqForeign := enq.any (fun (r, _) => rts.any (fun (x, _) => x.path == r && !x.channel.servesIngress))
      if nonInbound || enqForeign then s!"PROP C10 non-inbound-route-reachable in={tag}"
      else if gotResolved.isNone && !enq.isEmpty then s!"PROP C10 unmatched-request-had-effect in={tag}"
      else if gotResolved != mRoute then
        s!"PROP C10 not-first-matching-inbound-route in={tag} expected={repr mRoute}"
      else
        let expStatus : Nat := match m with | .route _ => 202 | .notFound => 404 | .methodNotAllowed _ => 405
        let expAllow : List String := match m with | .methodNotAllowed a => a | _ => []
        let expEnq : List (String × String) := match m with
          | .route p => match rts.find? (fun (r, _) => r.path == p) with
            | some (_, ts) => ts.map (fun t => (p, t))
            | none => []
          | _ => []
        let srt (l : List (String × String)) := l.mergeSort (fun a b => a.1 < b.1 || (a.1 == b.1 && a.2 ≤ b.2))
        if status != expStatus then
          (if status == 202 || expStatus == 202 then s!"PROP C10 status in={tag} expected={expStatus}" else s!"PROP C10 status-404-405 in={tag} expected={expStatus}")
        else if status == 405 && strs got "allow" != expAllow then s!"DIVERGE allow in={tag} model={expAllow}"
        else if srt enq != srt expEnq then s!"DIVERGE enqueued in={tag} model={repr expEnq}"
        else "ok"
    | _ => "ok"

end Hk.DriveRoute
