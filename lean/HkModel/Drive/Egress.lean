import HkModel.Drive.Json
import HkModel.Model.Egress
import HkModel.Model.Dispatch
/-! driver mode `egress` -/
namespace Hk.DriveEgress
open Lean Hk.J Hk.Egress

def ipOf (j : Json) : IP := { v4 := bool j "v4", n := nat j "n" }
def ruleOf (j : Json) : Rule :=
  { host := str j "host", sub := bool j "sub", isCIDR := bool j "isCIDR", cidrV4 := bool j "cidrV4", base := nat j "base", bits := nat j "bits" }
def policyOf (j : Json) : Policy :=
  { httpsOnly := bool j "httpsOnly", redirects := bool j "redirects", rebind := bool j "rebind",
    allow := (arr j "allow").map ruleOf, deny := (arr j "deny").map ruleOf }
def optIP (j : Json) (k : String) : Option IP := if has j k && !(obj j k).isNull then some (ipOf (obj j k)) else none
def optIPs (j : Json) (k : String) : Option (List IP) :=
  if has j k && !(obj j k).isNull then some ((arr j k).map ipOf) else none
def hopOf (j : Json) : Hop :=
  { scheme := str j "scheme", hostname := str j "hostname", literal := optIP j "literal", answers := optIPs j "answers" }

def vstr : Verdict → String | .allowed => "allowed" | .denied => "denied" | .lookupError => "error"

def processLine (line : String) : String :=
  match Json.parse line with
  | .error e => s!"BADLINE {e}"
  | .ok j =>
    let tag := line.trimAscii.toString
    match str j "k" with
    | "check" =>
      let p := policyOf (obj j "policy")
      let got := str j "got"
      if bool j "parseError" then (if got == "allowed" then s!"PROP C16 unparsable-url-allowed in={tag}" else "ok") else
      let m := vstr (check p (str j "scheme") (str j "hostname") (optIP j "literal") (optIPs j "answers"))
      if m == got then "ok"
      else if got == "allowed" then s!"PROP C16 allowed-against-policy in={tag} model={m}"
      else s!"DIVERGE check in={tag} model={m} impl={got}"
    | "ipclass" =>
      let ip := ipOf (obj j "ip")
      let got := bool j "got"
      let m := isAllowedIP ip
      if got && decide (blocked ip) then s!"PROP C16 blocked-class-address-allowed in={tag}"
      else if m == got then "ok" else s!"DIVERGE ipclass in={tag} model={m} impl={got}"
    | "hostrule" =>
      let m := matchHostRule (str j "host") (ruleOf (obj j "rule"))
      if m == bool j "got" then "ok" else s!"DIVERGE hostrule in={tag} model={m}"
    | "redirect" =>
      let p := policyOf (obj j "policy")
      let hops := (arr j "hops").map hopOf
      let n := sent p hops
      let arrived := nat j "arrived"
      let action := str j "action"
      -- which hop (if any) is the first one the policy denies among those that would be reached
      let firstDenied := hops.findIdx? (fun h => !hopOK p h)
      let deniedReached := match firstDenied with
        -- hop i ≥ 1 is evaluated by checkRedirect only while fewer than 10 requests were made: at i = 10 the client stops
        -- with the last response before looking at the URL (nothing is sent either way; the outcome is then the 3xx's)
        | some i => i == 0 || (p.redirects && i ≤ n && i < 10 && n == i)
        | none => false
      let lookupIssue := hops.any (fun h => check p h.scheme h.hostname h.literal h.answers == .lookupError)
      if arrived > n then s!"PROP C16 request-sent-to-denied-hop in={tag} model_sent={n}"
      else if deniedReached && !lookupIssue && action != "dead:policy_denied" then s!"PROP C16,C06 denied-not-dead-lettered in={tag} model_sent={n}"
      else if arrived == n then "ok" else s!"DIVERGE redirect in={tag} model_sent={n} impl_arrived={arrived}"
    | _ => "ok"

end Hk.DriveEgress
