import Lean.Data.Json
/-! JSON helpers shared by all driver modes (core only). -/
namespace Hk.J
open Lean

def str (j : Json) (k : String) : String := ((j.getObjVal? k).bind (·.getStr?)).toOption.getD ""
def int (j : Json) (k : String) : Int := ((j.getObjVal? k).bind (·.getInt?)).toOption.getD 0
def nat (j : Json) (k : String) : Nat := ((j.getObjVal? k).bind (·.getNat?)).toOption.getD 0
def bool (j : Json) (k : String) : Bool := ((j.getObjVal? k).bind (·.getBool?)).toOption.getD false
def arr (j : Json) (k : String) : List Json := (((j.getObjVal? k).bind (·.getArr?)).toOption.getD #[]).toList
def obj (j : Json) (k : String) : Json := (j.getObjVal? k).toOption.getD Json.null
def has (j : Json) (k : String) : Bool := (j.getObjVal? k).toOption.isSome
def strs (j : Json) (k : String) : List String := (arr j k).map (fun x => x.getStr?.toOption.getD "")
def asStr (j : Json) : String := j.getStr?.toOption.getD ""
def asInt (j : Json) : Int := j.getInt?.toOption.getD 0
def asBool (j : Json) : Bool := j.getBool?.toOption.getD false
def asArr (j : Json) : List Json := (j.getArr?.toOption.getD #[]).toList

end Hk.J
