import HkModel.Drive.Json
import HkModel.Model.ApiAuth
/-! driver mode `apiauth` -/
namespace Hk.DriveApiAuth
open Lean Hk.J Hk.ApiAuth

def routesOf (j : Json) : List PullRoute :=
  (arr j "routes").map (fun r => { route := str r "route", endpoint := str r "endpoint", tokens := strs r "tokens" })

/-- `path.Base` / endpoint split on an already cleaned path -/
def splitOp (clean : String) : String × String :=
  let cs := clean.toList
  let rev := cs.reverse
  let opR := rev.takeWhile (· != '/')
  let op := String.ofList opR.reverse
  let ep := String.ofList (cs.take (cs.length - opR.length - 1))
  (if ep == "" then "/" else ep, op)

def processLine (line : String) : String :=
  match Json.parse line with
  | .error e => s!"BADLINE {e}"
  | .ok j =>
    let tag := line.trimAscii.toString
    let global := strs j "global"
    let routes := routesOf j
    match str j "k" with
    | "compile" =>
      let m := compileOK global routes
      let ok := bool j "ok"
      if ok && !m then s!"PROP C11 compiled-config-leaves-pull-route-open in={tag}"
      else if ok != m then s!"DIVERGE compile in={tag} model={m}"
      else "ok"
    | "pull" =>
      let status := nat j "status"
      let changed := bool j "changed"
      if str j "method" != "POST" then (if status == 405 && !changed then "ok" else s!"DIVERGE method in={tag}") else
      let (ep, _) := splitOp (str j "cleanPath")
      let auth := authorizePull global routes ep (str j "auth")
      if !auth && (status != 401 || changed) then s!"PROP C11 pull-acted-for-unauthorized-caller in={tag} endpoint={ep}"
      else if auth && status == 401 then s!"DIVERGE pull-rejected-authorized in={tag} endpoint={ep}"
      else "ok"
    | "worker" =>
      let code := str j "code"
      let changed := bool j "changed"
      let auth := authorizeWorker global routes (str j "endpoint") (strs j "values")
      if !auth && (code != "Unauthenticated" || changed) then s!"PROP C11 worker-acted-for-unauthorized-caller in={tag}"
      else if auth && code == "Unauthenticated" then s!"DIVERGE worker-rejected-authorized in={tag}"
      else "ok"
    | "admin" =>
      let status := nat j "status"
      let auth := bearerHTTP (strs j "admin") (str j "auth")
      if !auth && (status != 401 || bool j "changed") then s!"PROP C11 admin-acted-for-unauthorized-caller in={tag}"
      else if auth && status == 401 then s!"DIVERGE admin-rejected-authorized in={tag}"
      else "ok"
    | _ => "ok"

end Hk.DriveApiAuth
