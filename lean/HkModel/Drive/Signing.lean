import HkModel.Drive.Json
import HkModel.Model.Signing
import HkModel.Model.Egress
/-! driver mode `signing` -/
namespace Hk.DriveSigning
open Lean Hk.J Hk.Signing

def optInt (j : Json) (k : String) : Option Int := if (obj j k).isNull then none else some (int j k)

def svOf (j : Json) : SVersion := { id := str j "id", ref := str j "ref", from_ := optInt j "from", until_ := optInt j "until" }

def processLine (line : String) : String :=
  match Json.parse line with
  | .error e => s!"BADLINE {e}"
  | .ok j =>
    let tag := line.trimAscii.toString
    if str j "k" != "sign" then "ok" else
    let modeS := Hk.Egress.lower (Hk.Egress.trimWS (str j "mode"))
    let mode : Option Mode := if modeS == "" || modeS == "newest_valid" then some .newest else if modeS == "oldest_valid" then some .oldest else none
    let vs := (arr j "versions").map svOf
    let keys := obj j "keys"
    let load : String → Option Bytes := fun r =>
      let r := Hk.Egress.trimWS r
      if has keys r && !(obj keys r).isNull then Sha256.fromHex (str keys r) else none
    let method := if str j "method" == "" then "POST" else str j "method"
    let body := (Sha256.fromHex (str j "body")).getD []
    let reqs := arr j "requests"
    let direct := Hk.Egress.trimWS (str j "direct")
    let vs' := vs.map (fun v => { v with ref := Hk.Egress.trimWS v.ref })
    let signAt := fun (t : Int) (meth path : String) (b : Bytes) => match mode with
      | none => (none : Option (String × String))
      | some md => sign Sha256.hmac load md vs' direct t meth path b
    -- the instants the deliverer read its clock at: one fixed instant, or (ticking clock) several
    let instants : List Int := if has j "reads" then (arr j "reads").map asInt else [int j "now"]
    let ticking := has j "reads"
    let m : Option (String × String) := signAt (int j "now") method (str j "escapedPath") body
    let cands := instants.map (fun t => signAt t method (str j "escapedPath") body)
    match reqs.head? with
    | none =>
      if ticking then (if instants.isEmpty || cands.any (·.isNone) then "ok" else s!"DIVERGE nothing-sent in={tag}")
      else (match m with | none => "ok" | some _ => s!"DIVERGE nothing-sent in={tag} model={repr m}")
    | some g =>
      if str g "body" != str j "body" then s!"PROP C17,C07 body-sent-differs in={tag}"
      else if !cands.any (fun c => c == some (str g "ts", str g "sig")) then
        if cands.all (·.isNone) then s!"PROP C17 sent-without-valid-signing-secret in={tag}"
        else if ticking then s!"PROP C17 stamp-and-signing-secret-do-not-belong-to-one-instant in={tag} read-instants={instants}"
        else s!"PROP C17 wrong-signature-or-timestamp in={tag} expected={repr m}"
      else
        -- every further hop must carry a signature over *its own* method, path and body (at one of the instants read)
        let stale := (reqs.drop 1).any (fun h =>
          !instants.any (fun t =>
            match signAt t (str h "method") (str h "escapedPath") ((Sha256.fromHex (str h "body")).getD []) with
            | some (ts', sig') => str h "ts" == ts' && str h "sig" == sig'
            | none => false))
        if stale then s!"PROP C17 redirect-hop-signature-stale in={tag}" else "ok"

end Hk.DriveSigning
