import HkModel.Drive.Json
import HkModel.Model.Signing
import HkModel.Model.Egress
/-! driver mode `signing` -/
namespace Hk.DriveSigning
open Lean Hk.J Hk.Signing

def optInt (j : Json) (k : String) : Option Int := if (obj j k).isNull then none else some (int j k)

def svOf (j : Json) : SVersion := { id := str j "id", ref := str j "ref", from_ := optInt j "from", until_ := optInt j "until" }

def processLine (line : String) : String :=
  match Json.parse line with
  | .error e => s!"BADLINE {e}"
  | .ok j =>
    let tag := line.trimAscii.toString
    if str j "k" != "sign" then "ok" else
    let modeS := Hk.Egress.lower (Hk.Egress.trimWS (str j "mode"))
    let mode : Option Mode := if modeS == "" || modeS == "newest_valid" then some .newest else if modeS == "oldest_valid" then some .oldest else none
    let vs := (arr j "versions").map svOf
    let keys := obj j "keys"
    let load : String → Option Bytes := fun r =>
      let r := Hk.Egress.trimWS r
      if has keys r && !(obj keys r).isNull then Sha256.fromHex (str keys r) else none
    let method := if str j "method" == "" then "POST" else str j "method"
    let body := (Sha256.fromHex (str j "body")).getD []
    let reqs := arr j "requests"
    let direct := Hk.Egress.trimWS (str j "direct")
    let m : Option (String × String) := match mode with
      | none => none
      | some md => sign Sha256.hmac load md (vs.map (fun v => { v with ref := Hk.Egress.trimWS v.ref })) direct (int j "now") method (str j "escapedPath") body
    match reqs.head?, m with
    | none, none => "ok"
    | some _, none => s!"PROP C17 sent-without-valid-signing-secret in={tag}"
    | none, some _ => s!"DIVERGE nothing-sent in={tag} model={repr m}"
    | some g, some (ts, sig) =>
      if str g "body" != str j "body" then s!"PROP C17,C07 body-sent-differs in={tag}"
      else if str g "ts" != ts || str g "sig" != sig then s!"PROP C17 wrong-signature-or-timestamp in={tag} expected_ts={ts} expected_sig={sig}"
      else
        -- every further hop must carry a signature over *its own* path
        let stale := (reqs.drop 1).any (fun h =>
          match sign Sha256.hmac load (mode.getD .newest) (vs.map (fun v => { v with ref := Hk.Egress.trimWS v.ref })) direct (int j "now")
                  (str h "method") (str h "escapedPath") ((Sha256.fromHex (str h "body")).getD []) with
          | some (ts', sig') => str h "ts" != ts' || str h "sig" != sig'
          | none => true)
        if stale then s!"PROP C17 redirect-hop-signature-stale in={tag}" else "ok"

end Hk.DriveSigning
