import HkModel.Drive.Json
import HkModel.Model.Queue
import HkModel.Model.Counters
import HkModel.Model.MemOrder
import HkModel.Obs.Queue
/-! Line-protocol driver for the queue correspondence (modes `queue`). -/
namespace Hk.DriveQueue
open Lean Hk Hk.J

def msgOfJson (j : Json) : Msg :=
  { id := str j "id", route := str j "route", target := str j "target",
    st := (St.ofString? (str j "st")).getD .queued,
    recv := int j "recv", next := int j "next", attempt := nat j "attempt",
    payload := str j "payload", headers := str j "headers", trace := str j "trace",
    reason := str j "reason", lease := str j "lease", luntil := int j "luntil" }

def envOfJson (j : Json) : Env :=
  { id := str j "id", route := str j "route", target := str j "target", recv := int j "recv",
    next := int j "next", attempt := nat j "attempt", payload := str j "payload",
    headers := str j "headers", trace := str j "trace" }

def cfgOfJson (j : Json) : Cfg :=
  { maxDepth := nat j "maxDepth", dropOldest := bool j "dropOldest", retention := int j "retention",
    pruneInterval := int j "pruneInterval", deliveredRet := int j "deliveredRet", dlqRet := int j "dlqRet",
    dlqDepth := nat j "dlqDepth", sweep := int j "sweep", memory := bool j "memory",
    pressureItems := nat j "pressureItems" }

def filterOfJson (j : Json) : Filter :=
  { route := str j "route", target := str j "target", state := str j "state", limit := int j "limit",
    before := int j "before", preview := bool j "preview" }

def opOfJson (j : Json) : Option Op :=
  match str j "t" with
  | "enqueue" => some (.enqueue (envOfJson (obj j "e")))
  | "enqueue_batch" => some (.enqueueBatch ((arr j "es").map envOfJson))
  | "dequeue" => some (.dequeue (str j "route") (str j "target") (int j "batch") (int j "ttl"))
  | "ack" => some (.lease .ack (str j "l"))
  | "nack" => some (.lease (.nack (int j "d")) (str j "l"))
  | "extend" => some (.lease (.extend (int j "d")) (str j "l"))
  | "mark_dead" => some (.lease (.markDead (str j "r")) (str j "l"))
  | "ack_batch" => some (.leaseBatch .ack (strs j "ls"))
  | "nack_batch" => some (.leaseBatch (.nack (int j "d")) (strs j "ls"))
  | "mark_dead_batch" => some (.leaseBatch (.markDead (str j "r")) (strs j "ls"))
  | "cancel" => some (.byIds .cancel (strs j "ids"))
  | "requeue" => some (.byIds .requeue (strs j "ids"))
  | "resume" => some (.byIds .resume (strs j "ids"))
  | "requeue_dead" => some (.byIds .requeueDead (strs j "ids"))
  | "delete_dead" => some (.byIds .deleteDead (strs j "ids"))
  | "cancel_f" => some (.byFilter .cancel (filterOfJson (obj j "f")))
  | "requeue_f" => some (.byFilter .requeue (filterOfJson (obj j "f")))
  | "resume_f" => some (.byFilter .resume (filterOfJson (obj j "f")))
  | "list" => some (.list (str j "route") (str j "target") (str j "state") (str j "order") (int j "limit") (int j "before"))
  | "list_dead" => some (.listDead (str j "route") (int j "limit") (int j "before"))
  | "lookup" => some (.lookup (strs j "ids"))
  | "stats" => some .stats
  | "restart" => some .restart
  | _ => none

def errOfString : String → Option Err
  | "full" => some .full | "exists" => some .exists_ | "pressure" => some .pressure
  | "lease_not_found" => some .leaseNotFound | "lease_expired" => some .leaseExpired
  | "bad_order" => some .badOrder | _ => none

def sortConflicts (cs : List Conflict) : List Conflict :=
  cs.mergeSort (fun a b => a.lease < b.lease || (a.lease == b.lease && (!a.expired || b.expired)))

/-- impl response; `none` for an error kind outside the contract's enum. -/
def respOfJson (j : Json) : Option Resp :=
  match str j "t" with
  | "ok" => some .ok
  | "err" => (errOfString (str j "e")).map .err
  | "enqueued" => some (.enqueued (nat j "n"))
  | "items" => some (.items ((arr j "picks").map (fun p => match asArr p with
      | [a, b] => (asStr a, asStr b) | _ => ("", ""))))
  | "batch" => some (.batch (nat j "n") (sortConflicts ((arr j "conflicts").map (fun p => match asArr p with
      | [a, b] => ⟨asStr a, asBool b⟩ | _ => ⟨"", false⟩))))
  | "count" => some (.count (nat j "changed") (nat j "matched") (bool j "preview"))
  | "ids" => some (.ids (strs j "l"))
  | "looked" => some (.looked ((arr j "l").map (fun p => match asArr p with
      | [a, b, c] => (asStr a, asStr b, (St.ofString? (asStr c)).getD .queued) | _ => ("", "", .queued))))
  | "stats" => some (.stats (nat j "total") (nat j "q") (nat j "l") (nat j "dl") (nat j "d") (nat j "c"))
  | _ => none

def canonResp : Resp → Resp
  | .batch n cs => .batch n (sortConflicts cs)
  | r => r

def sortMsgs (ms : List Msg) : List Msg := ms.mergeSort (fun a b => a.id ≤ b.id)

def opKind : Op → String
  | .enqueue _ => "enqueue" | .enqueueBatch _ => "enqueue_batch" | .dequeue .. => "dequeue"
  | .lease .ack _ => "ack" | .lease (.nack _) _ => "nack" | .lease (.extend _) _ => "extend"
  | .lease (.markDead _) _ => "mark_dead"
  | .leaseBatch .ack _ => "ack_batch" | .leaseBatch (.nack _) _ => "nack_batch"
  | .leaseBatch (.extend _) _ => "extend_batch" | .leaseBatch (.markDead _) _ => "mark_dead_batch"
  | .byIds .cancel _ => "cancel" | .byIds .requeue _ => "requeue" | .byIds .resume _ => "resume"
  | .byIds .requeueDead _ => "requeue_dead" | .byIds .deleteDead _ => "delete_dead"
  | .byFilter .cancel _ => "cancel_f" | .byFilter .requeue _ => "requeue_f" | .byFilter .resume _ => "resume_f"
  | .byFilter .requeueDead _ => "requeue_dead_f" | .byFilter .deleteDead _ => "delete_dead_f"
  | .list .. => "list" | .listDead .. => "list_dead" | .lookup _ => "lookup" | .stats => "stats"
  | .restart => "restart"

def respKind : Resp → String
  | .ok => "ok" | .err e => "err:" ++ e.toString | .enqueued _ => "enqueued"
  | .items p => if p.isEmpty then "items:0" else if p.length == 1 then "items:1" else "items:n"
  | .batch n cs => "batch:" ++ (if n > 0 then "s" else "") ++ (if cs.any (·.expired) then "x" else "") ++ (if cs.any (!·.expired) then "c" else "")
  | .count ch m pv => "count:" ++ (if pv then "preview" else if ch > 0 then "some" else if m > 0 then "matched" else "none")
  | .ids l => if l.isEmpty then "ids:0" else "ids:n"
  | .looked l => if l.isEmpty then "looked:0" else "looked:n"
  | .stats .. => "stats"

structure DState where
  cfg : Cfg := {}
  q : Q := {}
  prev : List Msg := []       -- implementation's previous snapshot (sorted by id)
  hist : Obs.Hist := {}       -- history monitor state (C03/C04 over the implementation's records)
  /-- what the senders asked for: (id, next_run_at) of every message stored with a time in the future and not touched by
      an operator since — a history-level reading of "not offered before its next_run_at", independent of what the store
      wrote into its own `next` column -/
  sched : List (String × Int) := []
  /-- memory backend: the model's copy of the store's scan list (`Model/MemOrder.orderStep`), none = not tracked -/
  order : Option (List String) := none
  trace : Nat := 0
  stepNo : Nat := 0
  steps : Nat := 0
  diverged : Nat := 0
  propFails : Nat := 0
  illegal : Nat := 0
  kinds : List (String × Nat) := []

def bump (k : String) : List (String × Nat) → List (String × Nat)
  | [] => [(k, 1)]
  | (a, n) :: r => if a == k then (a, n + 1) :: r else (a, n) :: bump k r

def firstDiff (a b : List Msg) : String :=
  match a, b with
  | [], [] => "none"
  | x :: _, [] => s!"model-extra id={x.id}"
  | [], y :: _ => s!"impl-extra id={y.id}"
  | x :: xs, y :: ys =>
    if x == y then firstDiff xs ys
    else if x.id != y.id then s!"id model={x.id} impl={y.id}"
    else s!"msg id={x.id} model={repr x} impl={repr y}"

/-- Process one protocol line; returns new state and output lines. -/
def processLine (ds : DState) (line : String) : DState × List String :=
  match Json.parse line with
  | .error e => (ds, [s!"BADLINE {e}"])
  | .ok j =>
    match str j "k" with
    | "cfg" =>
      let init := sortMsgs ((arr j "init").map msgOfJson)
      -- a store built from configuration text: every limit / retention value the text states must be the value in force
      let c := cfgOfJson (obj j "cfg")
      let cmp := fun (which : String) (k : Cfg) =>
        let bad := (if k.maxDepth != c.maxDepth then ["max_depth"] else []) ++ (if k.dropOldest != c.dropOldest then ["drop_policy"] else []) ++
          (if k.retention != c.retention then ["queue_retention.max_age"] else []) ++ (if k.pruneInterval != c.pruneInterval then ["prune_interval"] else []) ++
          (if k.deliveredRet != c.deliveredRet then ["delivered_retention.max_age"] else []) ++ (if k.dlqRet != c.dlqRet then ["dlq_retention.max_age"] else []) ++
          (if k.dlqDepth != c.dlqDepth then ["dlq_retention.max_depth"] else [])
        if bad.isEmpty then [] else
          ["C02", "C12", "C13"].map (fun p => s!"PROP {p} trace={nat j "trace"} step=0 configured-value-not-in-force-{which} {bad} stated={repr c} {which}={repr k}")
      let wiringStore : List String :=
        if !(has j "inStore") || (obj j "inStore").isNull then [] else cmp "in-the-store" (cfgOfJson (obj j "inStore"))
      let wiring : List String := wiringStore ++
        if !(has j "compiled") || (obj j "compiled").isNull then [] else
        let k := cfgOfJson (obj j "compiled")
        let bad := (if k.maxDepth != c.maxDepth then ["max_depth"] else []) ++ (if k.dropOldest != c.dropOldest then ["drop_policy"] else []) ++
          (if k.retention != c.retention then ["queue_retention.max_age"] else []) ++ (if k.pruneInterval != c.pruneInterval then ["prune_interval"] else []) ++
          (if k.deliveredRet != c.deliveredRet then ["delivered_retention.max_age"] else []) ++ (if k.dlqRet != c.dlqRet then ["dlq_retention.max_age"] else []) ++
          (if k.dlqDepth != c.dlqDepth then ["dlq_retention.max_depth"] else [])
        if bad.isEmpty then [] else
          ["C02", "C12"].map (fun p => s!"PROP {p} trace={nat j "trace"} step=0 configured-value-not-in-force {bad} stated={repr c} compiled={repr k}")
      ({ ds with cfg := c, q := { msgs := init }, prev := init, hist := {}, sched := [], order := if init.isEmpty then some [] else none,
                 trace := nat j "trace", stepNo := 0, propFails := ds.propFails + wiring.length }, wiring)
    | "step" =>
      let n := ds.stepNo
      let tag := s!"trace={ds.trace} step={n}"
      let now := int j "now"
      match opOfJson (obj j "op"), respOfJson (obj j "resp") with
      | some op, some resp =>
        let after := if bool j "same" then ds.prev else sortMsgs ((arr j "after").map msgOfJson)
        let stored := match op, resp with
          | Op.enqueue e, Resp.ok => [e.id]
          | Op.enqueueBatch es, Resp.enqueued _ => es.map (fun (e : Env) => e.id)
          | _, _ => ([] : List String)
        let gone := (ds.prev.filter (fun m => !after.any (·.id == m.id) || stored.contains m.id)).map (·.id)
        let picks := match resp with | .items p => p | _ => []
        let refusal := match resp with | .err e => some e | _ => none
        let ch : Choice := { picks := picks, gone := gone, refusal := refusal }
        let items := (arr (obj j "resp") "items").map msgOfJson
        -- property predicates evaluated on the implementation's own record
        let rec_ : Obs.Rec := { cfg := ds.cfg, now := now, before := ds.prev, op := op, resp := resp, after := after, items := items }
        let (hist', propMsgs0) := Obs.checkAll ds.hist rec_
        -- scheduled messages: remember what was asked for, forget on operator intervention, judge first leases
        let asked : List (String × Int) := match op, resp with
          | Op.enqueue e, Resp.ok => if e.next > now then [(e.id, e.next)] else []
          | Op.enqueueBatch es, Resp.enqueued _ => es.filterMap (fun (e : Env) => if e.next > now then some (e.id, e.next) else none)
          | _, _ => []
        let sched1 : List (String × Int) := match op with
          | Op.enqueue e => ds.sched.filter (·.1 != e.id)
          | Op.enqueueBatch es => ds.sched.filter (fun p => !es.any (fun (e : Env) => e.id == p.1))
          | Op.byIds _ ids => ds.sched.filter (fun p => !(ids.map trimWS).contains p.1)
          | Op.byFilter .. => []
          | _ => ds.sched
        let early : List String := match resp with
          | Resp.items ps => ps.filterMap fun (p : String × String) =>
              match sched1.find? (fun (x : String × Int) => x.1 == p.1), after.find? (fun (m : Msg) => m.id == p.1) with
              | some (_, want), some m => if m.attempt == 1 && now < want then some s!"scheduled-message-offered-before-its-time id={p.1} asked={want - now}ns-later" else none
              | _, _ => none
          | _ => []
        -- SQLite: the trigger-maintained counters the admission test reads must be the counts of the snapshot
        -- (`Props/Counters.lean: counters_track` evaluated on the implementation's own record)
        let drift : List String :=
          if !(has j "ctr") || (obj j "ctr").isNull then [] else
          let c := (arr j "ctr").map (fun (x : Json) => (x.getInt?.toOption.getD (-1)))
          let sts := after.map (fun (m : Msg) => m.st.toString)
          let want : List Int := [(Counters.countsOf sts "queued" : Int), (Counters.countsOf sts "leased" : Int)]
          if c == want then [] else [s!"sqlite-depth-counters-differ-from-row-counts counters={c} rows={want}"]
        -- memory: the scan list. (a) on the implementation's own record: every queued message must be on it, or no dequeue
        -- will ever find it (a dead / canceled message that is missing is a divergence of the list, below, until it is requeued) (`Props/MemOrder.lean: cover_reachable`); (b) against the model: the list is what `orderStep`
        -- computes (appends, compaction thresholds), and a dequeue picks what `scan` picks on the list before the step
        let implOrd : Option (List String) :=
          if !(has j "ord") || (obj j "ord").isNull then none else some ((arr j "ord").map (fun (x : Json) => x.getStr?.toOption.getD ""))
        let hidden : List String := match implOrd with
          | some o => (after.filter (fun (m : Msg) => m.st == .queued && !o.contains m.id)).map (fun (m : Msg) => s!"stored-message-missing-from-the-memory-store's-scan-list id={m.id} state={m.st.toString}")
          | none => []
        let modelOrd : Option (List String) := match ds.order, implOrd with
          | some o, some _ => some (MemOrder.orderStep o (MemOrder.addedBy op resp) (MemOrder.compactsAfter op) (after.map (·.id)))
          | _, _ => none
        let scanDiv : List String := match ds.order, implOrd, op with
          | some o, some _, Op.dequeue route target batch _ =>
            match (prune ds.cfg now ds.q gone).map (sweep ds.cfg now) with
            | some q1 =>
              let want := MemOrder.scan (MemOrder.readyId now route target q1.msgs) (effBatch batch) o []
              if want == picks.map (·.1) then [] else [s!"DIVERGE {tag} field=scan-order model={want} impl={picks.map (·.1)}"]
            | none => []
          | _, _, _ => []
        let ordDiv : List String := match modelOrd, implOrd with
          | some mo, some io => if mo == io then [] else
              [s!"DIVERGE {tag} field=order-list op={opKind op} model-len={mo.length} impl-len={io.length} first-diff={(mo.zip io).findIdx? (fun p => p.1 != p.2)}"]
          | _, _ => []
        -- a restart is none of the events that may end a lease (ack, nack, expiry, operator mutation): a lease that is live
        -- when the process restarts is the same lease afterwards (C03; the consumer holding it may be another process)
        let restartBreaks : List String := match op with
          | Op.restart => ds.prev.filterMap (fun (m : Msg) =>
              if m.st == .leased && decide (m.luntil > now) then
                match after.find? (fun (x : Msg) => x.id == m.id) with
                | some m' => if m'.st == .leased && m'.lease == m.lease && m'.luntil == m.luntil then none
                             else some s!"restart-ended-a-live-lease id={m.id} lease-had={m.luntil - now}ns-left now-{m'.st.toString}"
                | none => some s!"restart-lost-a-leased-message id={m.id}"
              else none)
          | _ => []
        let propMsgs := propMsgs0 ++ early.flatMap (fun _ => ["C03", "C05"]) ++ restartBreaks.map (fun _ => "C03") ++ drift.flatMap (fun _ => ["C02", "C12"]) ++ hidden.map (fun _ => "C05")
        let sched' := (sched1 ++ asked).filter (fun p => after.any (·.id == p.1))
        let propOut := propMsgs0.map (fun m => s!"PROP {m} {tag}") ++
          early.flatMap (fun e => [s!"PROP C03 {tag} {e}", s!"PROP C05 {tag} {e}"]) ++
          drift.flatMap (fun e => [s!"PROP C02 {tag} {e}", s!"PROP C12 {tag} {e}"]) ++
          hidden.map (fun e => s!"PROP C05 {tag} {e}") ++ restartBreaks.map (fun e => s!"PROP C03 {tag} {e}") ++ scanDiv ++ ordDiv
        let ds := { ds with stepNo := n + 1, steps := ds.steps + 1, hist := hist', sched := sched', propFails := ds.propFails + propMsgs.length,
                            order := implOrd, diverged := ds.diverged + scanDiv.length + ordDiv.length,
                            kinds := bump (opKind op ++ "/" ++ respKind resp) ds.kinds }
        match step ds.cfg now ds.q op ch with
        | none =>
          -- the implementation's choice is not legal for the model: resynchronise on the implementation
          ({ ds with q := { ds.q with msgs := after, issued := ds.q.issued ++ picks.map (·.2) }, prev := after,
                     illegal := ds.illegal + 1, diverged := ds.diverged + 1 },
           [s!"DIVERGE {tag} field=choice op={opKind op} resp={respKind resp}"] ++ propOut)
        | some (q', r') =>
          let mAfter := sortMsgs q'.msgs
          let respOK := canonResp r' == canonResp resp
          let stateOK := mAfter == after
          let itemsOK := items.all (fun it => mAfter.any (· == it))
          if respOK && stateOK && itemsOK then
            ({ ds with q := q', prev := after }, [s!"ok"] ++ propOut)
          else
            let what := if !respOK then s!"field=resp model={repr (canonResp r')} impl={repr (canonResp resp)}"
                        else if !stateOK then s!"field=state {firstDiff mAfter after}"
                        else "field=items returned envelope differs from stored message"
            ({ ds with q := { q' with msgs := after }, prev := after, diverged := ds.diverged + 1 },
             [s!"DIVERGE {tag} op={opKind op} {what}"] ++ propOut)
      | _, _ =>
        let after := if bool j "same" then ds.prev else sortMsgs ((arr j "after").map msgOfJson)
        ({ ds with stepNo := n + 1, steps := ds.steps + 1, q := { ds.q with msgs := after }, prev := after, diverged := ds.diverged + 1 },
         [s!"DIVERGE {tag} field=decode op={(obj j "op").compress} resp={(obj j "resp").compress}"])
    | _ => (ds, [])

def summary (ds : DState) : String :=
  let ks := ds.kinds.map (fun (k, n) => s!"\"{k}\":{n}")
  "SUMMARY {\"steps\":" ++ toString ds.steps ++ ",\"diverged\":" ++ toString ds.diverged ++
  ",\"prop_fails\":" ++ toString ds.propFails ++ ",\"illegal_choice\":" ++ toString ds.illegal ++
  ",\"kinds\":{" ++ ",".intercalate ks ++ "}}"

end Hk.DriveQueue
