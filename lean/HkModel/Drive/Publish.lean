import HkModel.Drive.Queue
import HkModel.Model.Publish
import HkModel.Model.PublishScoped
/-! driver mode `publish`: Admin publish requests (global direct path modelled; endpoint-scoped path checked against the
    property predicate only). -/
namespace Hk.DrivePublish
open Lean Hk Hk.J Hk.Publish Hk.DriveQueue

def itemOfJson (j : Json) : Item :=
  { id := str j "id", route := str j "route", target := str j "target", app := str j "app", ep := str j "ep",
    payloadB64 := str j "payloadB64",
    headers := (arr j "headers").map (fun kv => match asArr kv with | [a, b] => (asStr a, asStr b) | _ => ("", "")),
    recvOK := bool j "recvOK", nextOK := bool j "nextOK", recv := int j "recv", next := int j "next" }

def routeOfJson (j : Json) : RouteInfo :=
  { path := str j "path", targets := strs j "targets", publishEnabled := bool j "publishEnabled",
    directEnabled := bool j "directEnabled", managed := bool j "managed", mode := str j "mode",
    maxBody := nat j "maxBody", maxHeaders := nat j "maxHeaders" }

def ctxOfJson (j : Json) : Ctx :=
  { routes := (arr j "routes").map routeOfJson, allowPull := bool j "allowPull", allowDeliver := bool j "allowDeliver" }

def auditCfgOfJson (j : Json) : AuditCfg :=
  { requireActor := bool j "requireActor", requireRequestId := bool j "requireRequestId",
    actorAllow := strs j "actorAllow", actorPrefix := strs j "actorPrefix" }

def auditOfJson (j : Json) : Audit := { reason := str j "reason", actor := str j "actor", requestId := str j "requestId" }

def optNat (j : Json) (k : String) : Option Nat := ((j.getObjVal? k).bind (·.getNat?)).toOption

/-- spec-level validity of one item on the global path, independent of the order in which the handler tests things:
    its shape is fine given the ids before it, it uses no selector, the per-item preflight accepts it, and its id is
    not stored yet -/
def itemValid (ctx : Ctx) (existing seen : List String) (it : Item) : Bool :=
  !shapeBad seen it && !isManagedItem it && (match itemPass ctx it with | .ok _ => true | .error _ => false) &&
    !existing.contains (trim it.id)

def seenBefore (items : List Item) (i : Nat) : List String := (items.take i).map (fun it => trim it.id)

def firstInvalid (ctx : Ctx) (existing : List String) (items : List Item) : Option Nat :=
  (List.range items.length).find? fun i => !itemValid ctx existing (seenBefore items i) (items.getD i default)

/-- the queue part of the property, evaluated on the implementation's own before/after:
    200 ⇒ after = survivors of before ++ one queued message per item; non-200 ⇒ nothing new and nothing changed -/
def queueOK (status : Nat) (published : Nat) (before after : List Msg) (n : Nat) (newIds : List String) : Option String :=
  let beforeIds := before.map (·.id)
  let fresh := after.filter (fun m => !beforeIds.contains m.id)
  if status == 200 then
    if published != n then some "published-count-differs-from-batch"
    else if !(newIds.all fun id => fresh.any (·.id == id)) then some "accepted-item-not-enqueued"
    else if fresh.length != n then some "enqueued-more-than-the-batch"
    else if !(fresh.all fun m => m.st == .queued && m.attempt == 0 && m.lease == "") then some "published-message-not-plain-queued"
    else none
  else
    if published != 0 then some "rejected-publish-reports-published"
    else if !fresh.isEmpty then some "rejected-publish-enqueued-items"
    else if !(after.all fun m => before.any (· == m)) then some "rejected-publish-changed-queue"
    else none

/-- spec-level validity of one item on the endpoint-scoped path of managed route `r` (no selector hints at all, id fresh
    and unique, target resolvable among the route's targets, envelope within the route's limits) -/
def scopedItemValid (r : RouteInfo) (existing seen : List String) (it : Item) : Bool :=
  let id := trim it.id
  id != "" && !seen.contains id && !existing.contains id &&
  trim it.route == "" && trim it.app == "" && trim it.ep == "" &&
  (match resolveTarget it.target (normTargets r.targets) with
   | some t => t != "" && (match envelopeFromItem it r.path t r.maxBody r.maxHeaders with | .ok _ => true | .error _ => false)
   | none => false)

/-- the route may be published to through the endpoint-scoped path -/
def scopedRouteOpen (ctx : Ctx) (r : RouteInfo) (managedEnabled : Bool) : Bool :=
  let targets := normTargets r.targets
  let mode := routeMode r targets
  r.publishEnabled && managedEnabled && !targets.isEmpty &&
    !(mode == "pull" && !ctx.allowPull) && !(mode == "deliver" && !ctx.allowDeliver)

def processLine (line : String) : String :=
  match Json.parse line with
  | .error e => s!"BADLINE {e}"
  | .ok j =>
    let k := str j "k"
    if k != "publish" && k != "scoped" then "ok" else
    let cfg := cfgOfJson (obj j "cfg")
    let now := int j "now"
    let ctx := ctxOfJson (obj j "ctx")
    let itemsJ := arr j "items"
    let items := itemsJ.map itemOfJson
    let before := sortMsgs ((arr j "before").map msgOfJson)
    let after := sortMsgs ((arr j "after").map msgOfJson)
    let rj := obj j "resp"
    let status := nat rj "status"; let code := str rj "code"; let index := optNat rj "index"; let published := nat rj "published"
    let tag := s!"case={nat j "case"} req={nat j "req"} n={items.length} status={status} code={code} index={index}"
    let existing := before.map (·.id)
    let newIds := items.map (fun it => trim it.id)
    let ac := auditCfgOfJson (obj (obj j "ctx") "audit")
    let au := auditOfJson (obj j "audit")
    match queueOK status published before after items.length newIds with
    | some clause => s!"PROP C15 {clause} {tag}"
    | none =>
    if status == 200 && (auditError ac (k == "scoped") au).isSome then
      s!"PROP C15 published-without-required-audit missing={(auditError ac (k == "scoped") au).getD ""} {tag}"
    else
    if k == "scoped" then
      -- endpoint-scoped path: the spec-level predicate on the implementation's answer, then the step-by-step model
      let route := str j "route"
      let fresh := after.filter (fun m => !existing.contains m.id)
      let rj? := (arr (obj j "ctx") "routes").find? (fun r => str r "path" == route)
      match rj? with
      | none => "ok"
      | some rjson =>
        let r := routeOfJson rjson
        let managedEnabled := bool rjson "managedEnabled"
        let prop : Option String :=
          if status != 200 then none
          else if !scopedRouteOpen ctx r managedEnabled then some "scoped-publish-on-a-route-closed-by-policy"
          else match (List.range items.length).find? (fun i => !scopedItemValid r existing (seenBefore items i) (items.getD i default)) with
            | some i => some s!"scoped-invalid-item-published item={i}"
            | none =>
              -- the stored messages are exactly the envelopes of the items
              let want := (items.zip itemsJ).filterMap fun p =>
                match resolveTarget p.1.target (normTargets r.targets) with
                | some t => match envelopeFromItem p.1 r.path t r.maxBody r.maxHeaders with
                  | .ok e => some (mkMsg now { e with headers := str p.2 "hcanon", trace := str p.2 "tcanon" })
                  | .error _ => none
                | none => none
              if sortMsgs want != sortMsgs fresh then some s!"scoped-published-message-differs-from-item {firstDiff (sortMsgs want) (sortMsgs fresh)}"
              else none
        match prop with
        | some c => s!"PROP C15 {c} {tag}"
        | none =>
          let sc : ScopeCtx := { scopedEnabled := true, route := some r, managedEnabled := managedEnabled }
          match scopedPreflight ctx sc ac au existing items with
          | .reject st c idx =>
            if st == status && c == code && idx == index then "ok"
            else s!"DIVERGE scoped publish {tag} model=reject {st} {c} {idx}"
          | .accept envs =>
            let envs := (envs.zip itemsJ).map fun p => { p.1 with headers := str p.2 "hcanon", trace := str p.2 "tcanon" }
            let stored := if status == 200 then envs.map (·.id) else []
            let gone := (before.filter (fun m => !after.any (·.id == m.id) || stored.contains m.id)).map (·.id)
            let refusal := match code with | "queue_full" => some Err.full | "duplicate_id" => some Err.exists_ | _ => none
            let ch : Choice := { picks := [], gone := gone, refusal := refusal }
            match step cfg now { msgs := before } (.enqueueBatch envs) ch with
            | none => s!"DIVERGE scoped publish {tag} field=choice gone={gone}"
            | some (q', rr) =>
              let mr := respOfStore rr
              if mr.status != status || mr.code != code || mr.index != index || mr.published != published then
                s!"DIVERGE scoped publish {tag} model={mr.status} {mr.code} {mr.index} {mr.published}"
              else if sortMsgs q'.msgs != after then s!"DIVERGE scoped publish {tag} field=state {firstDiff (sortMsgs q'.msgs) after}"
              else "ok"
    else
    -- spec-level predicate on the implementation's answer
    let fi := firstInvalid ctx existing items
    let requestLevel := items.isEmpty || items.length > maxItems
    let propBad : Option String :=
      if status == 200 then
        (if requestLevel then some "oversized-or-empty-batch-accepted"
         else match fi with | some i => some s!"invalid-item-published item={i}" | none => none)
      else match index with
        | some i =>
          if i ≥ items.length then some "error-index-out-of-range"
          else if itemValid ctx existing (seenBefore items i) (items.getD i default) then some s!"error-names-valid-item item={i}"
          else match fi with
            | some f =>
              if f < i then
                -- the pinned handler validates in passes (shape of all items, then per-item preflight, then the stored-id
                -- lookup) and reports the first offender of the first failing pass: a known finding when that is what
                -- happened, a different violation otherwise
                (match preflight ctx existing items with
                 | .reject _ _ (some mi) => if mi == i then some s!"first-offender-by-pass reported={i} least={f}"
                                            else some s!"first-offender-wrong reported={i} least={f}"
                 | _ => some s!"first-offender-wrong reported={i} least={f}")
              else none
            | none => none
        | none =>
          -- no index: a whole-request rule or a refusal by the store
          if requestLevel || fi.isNone then none else none
    match propBad with
    | some c => s!"PROP C15 {c} {tag}"
    | none =>
    -- the model: audit gate, preflight, then the queue step with the implementation's eviction choice
    match auditError ac false au with
    | some c =>
      if status == 400 && code == c && index.isNone then "ok" else s!"DIVERGE publish {tag} model=reject 400 {c} none"
    | none =>
    match preflight ctx existing items with
    | .reject st c idx =>
      if st == status && c == code && idx == index then "ok"
      else s!"DIVERGE publish {tag} model=reject {st} {c} {idx}"
    | .accept envs =>
      let envs := (envs.zip itemsJ).map fun p => { p.1 with headers := str p.2 "hcanon", trace := str p.2 "tcanon" }
      let stored := if status == 200 then envs.map (·.id) else []
      let gone := (before.filter (fun m => !after.any (·.id == m.id) || stored.contains m.id)).map (·.id)
      let refusal := match code with | "queue_full" => some Err.full | "duplicate_id" => some Err.exists_ | _ => none
      let ch : Choice := { picks := [], gone := gone, refusal := refusal }
      match step cfg now { msgs := before } (.enqueueBatch envs) ch with
      | none => s!"DIVERGE publish {tag} field=choice gone={gone}"
      | some (q', r) =>
        let mr := respOfStore r
        if mr.status != status || mr.code != code || mr.index != index || mr.published != published then
          s!"DIVERGE publish {tag} model={mr.status} {mr.code} {mr.index} {mr.published}"
        else if sortMsgs q'.msgs != after then s!"DIVERGE publish {tag} field=state {firstDiff (sortMsgs q'.msgs) after}"
        else "ok"

end Hk.DrivePublish
