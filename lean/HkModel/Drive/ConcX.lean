import HkModel.Drive.Json
import HkModel.Drive.Queue
import HkModel.Model.SplitFilter
/-! driver mode `concx`: concurrent requests through the real handlers, scenarios with a schedule-independent outcome.
    The predicates are the sequential theorems' conclusions read on the totals: whatever the interleaving, the totals must be
    those of SOME sequential order of the same requests (each handler decision being one critical section). -/
namespace Hk.DriveConcX
open Lean Hk.J

def processLine (line : String) : String :=
  match Json.parse line with
  | .error e => s!"BADLINE {e}"
  | .ok j =>
    if str j "k" != "cx" then "ok" else
    let tag := line.trimAscii.toString
    match str j "scenario" with
    | "nonce" =>
      -- C09: of all simultaneous requests carrying one nonce exactly one is honoured (replay_rejected_while_live on any order)
      let a := nat j "accepted"; let t := nat j "targets"
      if a > 1 then s!"PROP C09 concurrent-requests-with-one-nonce-accepted-more-than-once accepted={a} {tag}"
      else if a == 0 then s!"DIVERGE concx nonce: none of the simultaneous valid requests was accepted {tag}"
      else if nat j "stored" != a * t then s!"PROP C09,C08 concurrent-requests-with-one-nonce-stored-{nat j "stored"}-messages-for-{a}-accepted {tag}"
      else "ok"
    | "depth" =>
      -- C12: the active count never ends above max_depth; under reject every accepted request is stored and nothing else
      let d := nat j "maxDepth"; let a := nat j "accepted"; let act := nat j "active"
      if nat j "other" != 0 then s!"DIVERGE concx depth: unexpected status {tag}"
      else if act > d then s!"PROP C12 queue-above-max-depth-after-concurrent-enqueues active={act} maxDepth={d} {tag}"
      else if !(bool j "dropOldest") && a != act then s!"PROP C12,C01 accepted-requests-and-stored-messages-differ-under-reject accepted={a} active={act} {tag}"
      else if !(bool j "dropOldest") && a + nat j "refused" != nat j "sent" then s!"DIVERGE concx depth: answers do not add up {tag}"
      else if bool j "dropOldest" && (a != nat j "sent" || act != min d (nat j "sent")) then s!"PROP C12 drop-oldest-under-concurrency accepted={a} active={act} {tag}"
      else "ok"
    | "foreign-lock" =>
      -- C01: every acknowledged request stands for one stored message per target, also when another process held the write
      -- lock of the file while it was served (an enqueue that could not write must surface as a refusal)
      let t := nat j "targets"
      let acked := nat j "ackedBefore" + nat j "ackedUnderLock"
      if !(bool j "locked") then s!"DIVERGE concx foreign-lock: the foreign writer could not take the lock {tag}"
      else if nat j "ackedBefore" != 1 then s!"DIVERGE concx foreign-lock: the request before the lock was not accepted {tag}"
      else if (obj j "stored").getInt?.toOption.getD (-1) < 0 then s!"PROP C01 database-does-not-reopen-after-a-foreign-writer {tag}"
      else if nat j "stored" < acked * t then s!"PROP C01 acknowledged-while-another-process-held-the-write-lock-but-not-stored acked={acked} targets={t} stored={nat j "stored"} {tag}"
      else "ok"
    | "aborted-upload" =>
      -- C01 / C07: the only message is the complete request's; a part of a body is never a message
      let full := str j "full"
      let stored := (arr j "stored").map (fun (x : Json) => x.getStr?.toOption.getD "")
      if nat j "completeStatus" != 202 then s!"DIVERGE concx aborted-upload: the complete request was not accepted {tag}"
      else if nat j "status" == 202 then s!"PROP C01,C07 upload-that-ended-half-way-acknowledged {tag}"
      else if stored.any (· != full) then s!"PROP C01,C07 part-of-a-request-body-stored-as-a-message {tag}"
      else if stored != [full] then s!"PROP C01,C07 messages-stored-differ-from-the-one-complete-request stored={stored.length} {tag}"
      else "ok"
    | "partial-fanout-payload" =>
      -- C07 / C02: a stored payload is the body of a request that was sent, and stays what it was when it was stored
      let sent := (arr j "sentBodies").map (fun (x : Json) => x.getStr?.toOption.getD "")
      let first := (arr j "storedWhenFirstSeen").map (fun (x : Json) => x.getStr?.toOption.getD "")
      if !(arr j "changed").isEmpty then s!"PROP C07,C02 stored-payload-changed-after-it-was-stored {tag}"
      else if first.any (fun p => !sent.contains p) then s!"PROP C07 stored-payload-is-no-request-body {tag}"
      else "ok"
    | "rate" =>
      -- C12: one global bucket with a negligible refill admits at most its burst, however many goroutines ask at once
      let a := nat j "accepted"; let b := nat j "burst"
      if a > b then s!"PROP C12 rate-window-bound-exceeded-under-concurrency accepted={a} burst={b} {tag}"
      else if a < min b (nat j "sent") then s!"DIVERGE concx rate: fewer admitted than the burst allows {tag}"
      else "ok"
    | "publish-dup" =>
      -- C15: the contested id exists once; a publisher is accepted iff its whole batch is stored (all-or-nothing)
      let a := nat j "accepted"
      if nat j "other" != 0 then s!"DIVERGE concx publish: unexpected status {tag}"
      else if nat j "contestedStored" != 1 then s!"PROP C15,C02 concurrently-published-id-stored-{nat j "contestedStored"}-times {tag}"
      else if a != 1 then s!"PROP C15 concurrent-publishes-of-one-id-accepted-{a}-times {tag}"
      else if nat j "ownStored" != a then s!"PROP C15 refused-publish-left-items-behind-under-concurrency own-stored={nat j "ownStored"} accepted={a} {tag}"
      else "ok"
    | "bucket" =>
      let a := nat j "accepted"; let b := nat j "burst"
      if a > b then s!"PROP C12 rate-window-bound-exceeded-under-concurrency accepted={a} burst={b} (worst of {nat j "iterations"} simultaneous volleys on the bucket object) {tag}"
      else "ok"
    | "depth-batch" =>
      -- C12 / C15: batches that fit alone but not together: the queue never ends above max_depth, accepted batches are stored whole
      let act := nat j "active"; let d := nat j "maxDepth"
      if nat j "other" != 0 then s!"DIVERGE concx depth-batch: unexpected status {tag}"
      else if act > d then s!"PROP C12,C15 queue-above-max-depth-after-concurrent-publishes active={act} maxDepth={d} {tag}"
      else if act != nat j "prefilled" + nat j "accepted" * nat j "batch" then s!"PROP C15 accepted-batches-and-stored-items-differ active={act} {tag}"
      else "ok"
    | "ack-vs-cancel" =>
      -- C04 / C02 / C14: a lease voided by a cancel cannot also be acked; exactly one of the two calls takes effect
      if nat j "both" != 0 then s!"PROP C04,C02,C14 ack-and-cancel-of-one-message-both-reported-success count={nat j "both"} {tag}"
      else if nat j "wrongState" != 0 then s!"PROP C04,C02 winner-of-ack-vs-cancel-not-reflected-in-the-state count={nat j "wrongState"} {tag}"
      else if nat j "neither" != 0 then s!"DIVERGE concx ack-vs-cancel: neither call succeeded for {nat j "neither"} messages {tag}"
      else "ok"
    | "stale-ack" =>
      if nat j "answeredSuccess" != 0 then s!"PROP C04 stale-ack-answered-success-while-a-duplicate-was-in-flight count={nat j "answeredSuccess"} {tag}"
      else "ok"
    | "pull-auth-during-reloads" =>
      -- C18 / C11: every decision is taken entirely under X or entirely under Y; both give the same answer here
      if nat j "otherTokenAccepted" != 0 then s!"PROP C18,C11 pull-caller-authorized-by-a-mixture-of-two-configurations count={nat j "otherTokenAccepted"} {tag}"
      else if nat j "ownTokenRefused" != 0 then s!"PROP C18,C11 pull-caller-refused-by-a-mixture-of-two-configurations count={nat j "ownTokenRefused"} {tag}"
      -- (a run in which the reloader was starved — fewer than two reloads in five seconds — says nothing; only a reloader
      -- that never succeeds at all means the scenario is not what it is meant to be)
      else if nat j "reloads" == 0 then s!"DIVERGE concx pull-auth-during-reloads: no reload succeeded {tag}"
      else "ok"
    | "evict-vs-consumers" =>
      if nat j "freshLeaseAckFailed" != 0 then s!"PROP C02,C12,C03 message-removed-while-leased-under-drop-oldest count={nat j "freshLeaseAckFailed"} {tag}"
      else "ok"
    | "mcp-writers" =>
      if nat j "strangeContentSeen" != 0 || !(bool j "finalKnown") then s!"PROP C18 configuration-file-seen-neither-old-nor-new-with-concurrent-mcp-writers {tag}"
      else if nat j "writersFailed" != 0 then s!"PROP C18 concurrent-mcp-writer-failed {tag}"
      else "ok"
    | "stale-op-vs-release" =>
      -- C03 / C04: a lease handed out and not settled is still held; a stale operation (expired or already used lease) changes nothing
      if nat j "grantsLostOrDoubled" != 0 then s!"PROP C03,C04 live-lease-wiped-by-a-stale-operation-or-message-granted-twice count={nat j "grantsLostOrDoubled"} {tag}"
      else "ok"
    | "interposed" =>
      -- C05 / C03 / C14: other requests served in the middle of an operator's by-filter requeue keep what they were told.
      -- The two-step model (`Model/SplitFilter`, theorems in `Props/SplitFilter`) is run on the three snapshots: the store
      -- when the ids were selected (q0), when the second step ran (q), and afterwards.
      let q0 : Q := { msgs := (arr j "q0").map DriveQueue.msgOfJson }
      let q : Q := { msgs := (arr j "q").map DriveQueue.msgOfJson }
      let after := DriveQueue.sortMsgs ((arr j "after").map DriveQueue.msgOfJson)
      let k : IdKind := if str j "op" == "resume-canceled" then .resume else .requeue
      let f := DriveQueue.filterOfJson (obj j "f")
      let (qm, rm) := SplitFilter.splitByFilter (int j "now") k f q0 q
      let allowed := allowedStates k
      -- the conclusion of `untouched_outside_allowed_states`, read on the implementation's own output
      let touched := q.msgs.filter (fun m => !(allowed.contains m.st) && after.find? (·.id == m.id) != some m)
      if !(bool j "setupOK") || !(bool j "interposedOK") || !(bool j "opOK") then s!"DIVERGE concx interposed: scenario did not run as intended {tag}"
      else if nat j "offeredEarly" != 0 then s!"PROP C05,C14 message-offered-before-its-nack-delay-after-an-overlapping-requeue-by-filter {tag}"
      else if nat j "missingAfterDelay" != 0 then s!"PROP C05,C02 nacked-message-not-offered-after-its-delay-after-an-overlapping-requeue-by-filter {tag}"
      else if nat j "freshLeaseAckFailed" != 0 then s!"PROP C03,C05,C14 live-lease-wiped-by-an-overlapping-requeue-by-filter {tag}"
      else if !touched.isEmpty then s!"PROP C14,C05,C03 by-filter-operation-changed-a-message-outside-its-states ids={touched.map (·.id)} {tag}"
      else if DriveQueue.sortMsgs qm.msgs != after then s!"DIVERGE concx interposed: store after the two-step operation differs from the split model: {DriveQueue.firstDiff (DriveQueue.sortMsgs qm.msgs) after} {tag}"
      else if rm != .count (nat j "requeued") (nat j "matched") false then s!"DIVERGE concx interposed: counts differ from the split model: model {repr rm} {tag}"
      else "ok"
    | "churn" =>
      -- C05 / C02: whatever was accepted and is queued and due is offered; after producer and consumer are done nothing is left
      if nat j "leftQueuedAndDueButNeverOffered" != 0 || nat j "delivered" != nat j "accepted" then
        s!"PROP C05,C02 accepted-message-queued-and-due-but-never-offered accepted={nat j "accepted"} delivered={nat j "delivered"} left={nat j "leftQueuedAndDueButNeverOffered"} {tag}"
      else if nat j "accepted" == 0 then s!"DIVERGE concx churn: nothing was accepted {tag}"
      else "ok"
    | "reload-raise-inflight" =>
      if !(bool j "reloadOK") || nat j "first" != 202 then s!"DIVERGE concx reload-raise-inflight: scenario did not run as intended {tag}"
      else if nat j "replay" == 202 then s!"PROP C09 replay-accepted-after-a-request-served-during-a-tolerance-raising-reload {tag}"
      else "ok"
    | _ => "ok"

end Hk.DriveConcX
