import HkModel.Drive.Json
import HkModel.Model.RateLimit
/-! driver mode `limits`: token bucket arrival sequences and body-size cases -/
namespace Hk.DriveLimits
open Lean Hk.J Hk.RateLimit

/-- the property bound on the implementation's own admit decisions, in exact integers: for every window (i, j] of
    the sequence, admitted·S ≤ burst·S + num·(M_j − M_i) where M_k is the latest timestamp seen up to k (the start
    counts as seen). O(n²), n ≤ a few hundred. -/
def boundOK (p : Params) (start : Int) (times : List Int) (got : List Bool) (slack : Nat) : Bool :=
  let pairs := times.zip got
  -- running maxima
  let ms := (pairs.foldl (fun (acc : Int × List Int) tg => let m := max acc.1 tg.1; (m, acc.2 ++ [m])) (start, [])).2
  let arr := (pairs.zip ms).toArray
  let n := arr.size
  (List.range (n + 1)).all (fun i =>
    let mi : Int := if i == 0 then start else (arr[i - 1]!).2
    (List.range (n - i + 1)).all (fun len =>
      let seg := (arr.extract i (i + len)).toList
      let adm := (seg.filter (fun x => x.1.2)).length
      let mj : Int := match seg.getLast? with | some x => x.2 | none => mi
      decide (((adm : Int) - slack) * p.scale ≤ p.cap + (mj - mi) * p.num)))

def processLine (line : String) : String :=
  match Json.parse line with
  | .error e => s!"BADLINE {e}"
  | .ok j =>
    let tag := (line.trimAscii.toString.take 600).toString
    match str j "k" with
    | "bucket" =>
      let p : Params := { num := nat j "num", den := nat j "den", burst := nat j "burst" }
      let start := int j "start"
      let times := (arr j "times").map asInt
      let got := (arr j "got").map asBool
      let exact := bool j "exact"
      -- float64 refill sums may cross 1.0 a rounding error early on arbitrary times: one admission of slack there
      if !boundOK p start times got (if exact then 0 else 1) then s!"PROP C12 rate-window-bound-exceeded in={tag}"
      else if exact && (run p (init p start) times).2 != got then
        s!"DIVERGE bucket in={tag} model={(run p (init p start) times).2}"
      else "ok"
    | "ratecfg" =>
      -- every request is charged to its route's own bucket if the route declares one, else to the one global bucket; the
      -- sub-sequence charged to a bucket must be exactly what that bucket admits (times are on the exact lattice)
      let start := int j "start"
      let evs := arr j "events"
      let badStatus := evs.find? (fun e => !(nat e "status" == 202 || nat e "status" == 429))
      let unlimited := evs.find? (fun e => str e "limiter" == "none" && !bool e "got")
      let bad := (arr j "limiters").find? (fun l =>
        let p : Params := { num := nat l "num", den := nat l "den", burst := nat l "burst" }
        let sub := evs.filter (fun e => str e "limiter" == str l "key")
        let times := sub.map (fun e => int e "t"); let got := sub.map (fun e => bool e "got")
        !boundOK p start times got 0)
      let div := (arr j "limiters").find? (fun l =>
        let p : Params := { num := nat l "num", den := nat l "den", burst := nat l "burst" }
        let sub := evs.filter (fun e => str e "limiter" == str l "key")
        (run p (init p start) (sub.map (fun e => int e "t"))).2 != sub.map (fun e => bool e "got"))
      match badStatus, bad, unlimited, div with
      | some e, _, _, _ => s!"DIVERGE ratecfg unexpected status {nat e "status"} in={tag}"
      | _, some l, _, _ => s!"PROP C12 rate-window-bound-exceeded limiter={str l "key"} (requests of all routes charged to it counted together) in={tag}"
      | _, _, some e, _ => s!"DIVERGE ratecfg unlimited route refused route={str e "route"} in={tag}"
      | _, _, _, some l => s!"DIVERGE ratecfg limiter={str l "key"} admits differently from the bucket model in={tag}"
      | _, _, _, _ => "ok"
    | "bodysize" =>
      let fits := nat j "len" ≤ nat j "maxBody"
      let status := nat j "status"; let enq := nat j "enqueued"
      if fits then
        (if status == 202 && enq == 1 && str j "sent" == str j "stored" then "ok"
         else if status == 202 then s!"PROP C07,C12 stored-payload-differs in={tag}" else s!"DIVERGE bodysize in={tag}")
      else
        (if status == 413 && enq == 0 then "ok"
         else if status == 202 then s!"PROP C12,C07 oversized-body-admitted in={tag}" else s!"PROP C12 oversized-body-status in={tag}")
    | _ => "ok"

end Hk.DriveLimits
