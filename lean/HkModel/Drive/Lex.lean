import HkModel.Drive.Json
import HkModel.Model.Lex
/-! driver mode `cfgfmt`: lexer and quoting correspondence (model = `Hk.Lex`, for which the round-trip theorems are
    proved), and the verdicts of the Parse/Format/Parse/Compile oracle the harness ran on configuration texts. -/
namespace Hk.DriveLex
open Lean Hk.J Hk.Lex

def tokOfPair (j : Json) : Option Tok :=
  match asArr j with
  | [k, t] =>
    let text := (asStr t).toList
    match asStr k with
    | "ident" => some (.ident text)
    | "str" => some (.str text)
    | "lbrace" => some .lbrace
    | "rbrace" => some .rbrace
    | "comment" => some (.comment text)
    | _ => none
  | _ => none

/-- the implementation's lexing result from a `lex` record -/
def implLex (j : Json) : Except String (List Tok) :=
  if str j "err" != "" then .error (str j "err") else .ok ((arr j "toks").filterMap tokOfPair)

def showToks : Except String (List Tok) → String
  | .error e => s!"error({e})"
  | .ok ts => toString (ts.map fun
      | .ident s => "ident:" ++ String.ofList s
      | .str s => "str:" ++ String.ofList s
      | .lbrace => "{" | .rbrace => "}"
      | .comment s => "comment:" ++ String.ofList s)

def valueTok (v : List Char) (q : Bool) : Tok := if q then .str v else .ident v

def formatRoutePath (p : List Char) (q : Bool) : List Char :=
  if q then quoteString p else if isUnquotedPathSafe p then p else quoteString p

def processLine (line : String) : String :=
  match Json.parse line with
  | .error e => s!"BADLINE {e}"
  | .ok j =>
    match str j "k" with
    | "lex" =>
      let m := lex (str j "src").toList
      let g := implLex j
      if m == g then "ok" else s!"DIVERGE lex src={(str j "src").quote} model={showToks m} impl={showToks g}"
    | "quote" =>
      let v := (str j "v").toList
      let q := bool j "quoted"
      let qs := String.ofList (quoteString v)
      let fv := String.ofList (formatValue v q)
      let fp := String.ofList (formatRoutePath v q)
      -- first the value round trip on the implementation's own output, for every value the lexer can have produced
      let producible := q || lex v == .ok [.ident v]
      let back := implLex (obj j "lexfv")
      let backP := implLex (obj j "lexfp")
      if producible && back != .ok [valueTok v q] then
        s!"PROP C19 value-does-not-roundtrip v={(str j "v").quote} quoted={q} written={(str j "fv").quote} read-back={showToks back}"
      else if producible && (q || isUnquotedPathSafe v) && backP != .ok [valueTok v q] then
        s!"PROP C19 path-does-not-roundtrip v={(str j "v").quote} quoted={q} written={(str j "fp").quote} read-back={showToks backP}"
      else if qs != str j "qs" then s!"DIVERGE quoteString v={(str j "v").quote} model={qs.quote} impl={(str j "qs").quote}"
      else if fv != str j "fv" then s!"DIVERGE formatValue v={(str j "v").quote} quoted={q} model={fv.quote} impl={(str j "fv").quote}"
      else if fp != str j "fp" then s!"DIVERGE formatRoutePath v={(str j "v").quote} quoted={q} model={fp.quote} impl={(str j "fp").quote}"
      else if isUnquotedValueSafe v != bool j "safe" then s!"DIVERGE isUnquotedValueSafe v={(str j "v").quote}"
      else if isUnquotedPathSafe v != bool j "pathSafe" then s!"DIVERGE isUnquotedPathSafe v={(str j "v").quote}"
      else "ok"
    | "fmtfront" =>
      -- the command line of the real binary and the MCP tool, on the same file: exactly the formatter's text for what parses,
      -- nothing for what does not; the file itself is never touched by either
      let tag := s!"src={((str j "src").take 120).toString.quote}"
      let parses := bool j "parses"
      if !(bool j "fileUntouched") then s!"PROP C19 config-fmt-front-end-changed-the-file {tag}"
      else if parses && (int j "cliExit" != 0 || !(bool j "cliSame")) then s!"PROP C19 cli-config-fmt-differs-from-the-formatter exit={int j "cliExit"} {tag}"
      else if !parses && (int j "cliExit" == 0 || nat j "cliPrinted" != 0) then s!"PROP C19 cli-config-fmt-printed-something-for-a-file-that-does-not-parse exit={int j "cliExit"} {tag}"
      else if parses && (bool j "mcpRefused" || !(bool j "mcpSame")) then s!"PROP C19 mcp-config-fmt-preview-differs-from-the-formatter {tag}"
      else if !parses && !(bool j "mcpRefused") then s!"PROP C19 mcp-config-fmt-preview-answered-for-a-file-that-does-not-parse {tag}"
      else "ok"
    | "roundtrip" =>
      let tag := s!"origin={str j "origin"} routes={nat j "nroutes"} valid={bool j "ok1"}"
      if str j "fmtErr" != "" then s!"PROP C19 format-fails {tag} err={str j "fmtErr"}"
      else if str j "parse2Err" != "" then s!"PROP C19 formatted-text-does-not-parse {tag} err={str j "parse2Err"}"
      else if !(bool j "same") then s!"PROP C19 compile-differs-after-fmt {tag} {str j "diff"}"
      else if !(bool j "idem") then s!"PROP C19 fmt-not-idempotent {tag}"
      else "ok"
    | _ => "ok"

end Hk.DriveLex
