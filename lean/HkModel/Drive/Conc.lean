import HkModel.Drive.Json
/-! driver mode `leaseconc`: a concurrent history of one real store, every call stamped with global invoke / return
    sequence numbers.  Flags **definite** violations of lease exclusivity only:

    * two grants carry the same lease id;
    * a message is granted again (the second dequeue was *invoked after the first returned*) although the first lease was
      certainly still live when the second dequeue returned: its (extended) `lease_until` lies after the second
      return's wall-clock time and no settling call on it was even invoked before the second grant returned;
    * attempt numbers of such ordered grants do not increase;
    * a settling call succeeds on a lease although a later grant of the same message had already *returned before it
      was invoked* (a stale lease took effect).

    Anything that could be explained by some linearisation of overlapping calls is not flagged. -/
namespace Hk.DriveConc
open Lean Hk.J

structure Grant where
  id : String
  lease : String
  attempt : Nat
  until_ : Int
  g : Int
  r : Int
  tr : Int
deriving Inhabited

structure Call where
  op : String
  lease : String
  ok : Bool
  g : Int
  r : Int
  tr : Int
  ext : Int
deriving Inhabited

def grantsOf (evs : List Json) : List Grant :=
  evs.flatMap fun e =>
    if str e "op" == "dequeue" then
      (arr e "items").map fun it => { id := str it "id", lease := str it "lease", attempt := nat it "attempt", until_ := int it "until",
                                      g := int e "g", r := int e "r", tr := int e "tr" }
    else []

def callsOf (evs : List Json) : List Call :=
  evs.filterMap fun e =>
    if str e "op" == "dequeue" then none
    else some { op := str e "op", lease := str e "lease", ok := bool e "ok", g := int e "g", r := int e "r", tr := int e "tr", ext := int e "extend" }

/-- the latest instant the lease can have been live: its `lease_until`, pushed by every successful extend (an extend
    sets `until = now + d` for some `now` no later than the call's return) -/
def liveUntil (calls : List Call) (a : Grant) : Int :=
  (calls.filter fun c => c.op == "extend" && c.lease == a.lease && c.ok).foldl (fun u c => max u (c.tr + c.ext)) a.until_

def concCheck (evs : List Json) : Option String :=
  let grants := grantsOf evs
  let calls := callsOf evs
  let leases := grants.map (·.lease)
  if leases.eraseDups.length != leases.length then some "two-grants-share-a-lease-id"
  else
    let bad := grants.findSome? fun a => grants.findSome? fun b =>
      if a.id == b.id && a.lease != b.lease && a.r < b.g then
        -- b was requested after a had been handed out
        let ended := calls.any fun c => c.lease == a.lease && (c.op == "ack" || c.op == "nack" || c.op == "dead") && c.g < b.r
        if !ended && b.tr < liveUntil calls a then
          some s!"message-leased-twice id={a.id} first={a.lease} (until {liveUntil calls a}) second={b.lease} (returned at {b.tr})"
        else if b.attempt ≤ a.attempt then some s!"attempt-did-not-increase id={a.id} {a.attempt} then {b.attempt}"
        else
          -- a settling call on the first lease that succeeded although it was invoked after the second grant returned
          match calls.find? fun c => c.lease == a.lease && (c.op == "ack" || c.op == "nack" || c.op == "dead") && c.ok && b.r < c.g with
          | some c => some s!"stale-lease-took-effect id={a.id} lease={a.lease} op={c.op}"
          | none => none
      else none
    bad

def processLine (line : String) : String :=
  match Json.parse line with
  | .error e => s!"BADLINE {e}"
  | .ok j =>
    if str j "k" == "longpoll" then
      -- a consumer that was already waiting when the message became due (with at least a second of its wait left) must get it
      let due := int j "dueAfterStartMs"; let maxWait := int j "maxWaitMs"
      if due + 1000 ≤ maxWait && !(bool j "got") then
        s!"PROP C05 due-message-not-handed-to-a-waiting-consumer scenario={str j "scenario"} backend={str j "backend"} due-after={due}ms waited={int j "returnedAfterMs"}ms"
      else if bool j "got" && int j "afterDueMs" < -2 then
        s!"PROP C05 message-handed-out-before-it-was-due scenario={str j "scenario"} backend={str j "backend"} early-by={-(int j "afterDueMs")}ms"
      else "ok"
    else
    if str j "k" != "conc" then "ok" else
    match concCheck (arr j "events") with
    | some c => s!"PROP C03,C04 {c} run={nat j "run"} backend={str j "backend"}"
    | none => "ok"

end Hk.DriveConc
