import HkModel.Drive.Queue
import HkModel.Model.PullOps
/-! driver mode `pullops`: the pull layer with its idempotency cache, step by step against the model, plus the C04 / C05
    predicates of that layer evaluated on the implementation's own records. -/
namespace Hk.DrivePull
open Lean Hk Hk.J Hk.PullOps Hk.DriveQueue

structure PD where
  cfg : Cfg := {}
  pc : PCfg := {}
  ps : PState := { q := {} }
  prev : List Msg := []
  /-- genuine successes so far: (trimmed lease id, "ack" | "nack", time) — the store itself accepted the operation -/
  wins : List (String × String × Int) := []
  trace : Nat := 0
  stepNo : Nat := 0
  n : Nat := 0
  bad : Nat := 0
deriving Inhabited

def pcfgOfJson (j : Json) : PCfg :=
  { maxBatch := nat j "maxBatch", defaultTTL := int j "defaultTTL", maxTTL := int j "maxTTL",
    recentTTL := int j "recentTTL", recentCap := nat j "recentCap" }

def optInt (j : Json) (k : String) : Option Int := ((j.getObjVal? k).bind (·.getInt?)).toOption

def popOfJson (j : Json) : Option POp :=
  match str j "t" with
  | "dequeue" => some (.dequeue (str j "route") (int j "batch") (optInt j "ttl"))
  | "ack" => some (.ackSingle (str j "l"))
  | "ack_batch" => some (.ackBatch (strs j "ls"))
  | "nack" => some (.nackSingle (str j "l") (bool j "dead") (str j "reason") (int j "delay"))
  | "nack_batch" => some (.nackBatch (strs j "ls") (bool j "dead") (str j "reason") (int j "delay"))
  | "extend" => some (.extend (str j "l") (int j "by"))
  | _ => none

def conflictsOfJson (j : Json) : List Conflict :=
  sortConflicts ((arr j "conflicts").map fun p => match asArr p with
    | [a, b] => ⟨asStr a, asBool b⟩ | _ => ⟨"", false⟩)

def cacheOfJson (j : Json) : Cache :=
  (arr j "cache").map fun p => match asArr p with
    | [a, b, c] => (asStr a, asStr b, asInt c) | _ => ("", "", 0)

/-- the message holds this lease and it has not expired -/
def heldLive (before : List Msg) (now : Int) (l : String) : Bool :=
  l != "" && before.any fun m => m.st == .leased && m.lease == l && now < m.luntil

/-- an earlier genuine success of the same operation on the same lease within the idempotency window -/
def justified (pc : PCfg) (wins : List (String × String × Int)) (now : Int) (l op : String) : Bool :=
  wins.any fun w => w.1 == l && w.2.1 == op && w.2.2 ≤ now && now - w.2.2 < pc.recentTTL

def step (d : PD) (line : String) : PD × String :=
  match Json.parse line with
  | .error e => (d, s!"BADLINE {e}")
  | .ok j =>
    match str j "k" with
    | "pcfg" =>
      ({ d with cfg := cfgOfJson (obj j "cfg"), pc := pcfgOfJson (obj j "pcfg"), ps := { q := {} }, prev := [], wins := [],
                trace := nat j "trace", stepNo := 0 }, "ok")
    | "qstep" =>
      let tag := s!"trace={d.trace} step={d.stepNo}"
      let now := int j "now"
      let after := sortMsgs ((arr j "after").map msgOfJson)
      let d1 := { d with stepNo := d.stepNo + 1 }
      match opOfJson (obj j "op"), respOfJson (obj j "resp") with
      | some op, some resp =>
        let gone := (d.prev.filter (fun m => !after.any (·.id == m.id))).map (·.id)
        let ch : Choice := { picks := [], gone := gone, refusal := match resp with | .err e => some e | _ => none }
        match Hk.step d.cfg now d.ps.q op ch with
        | some (q', r') =>
          if canonResp r' == canonResp resp && sortMsgs q'.msgs == after then ({ d1 with ps := { d.ps with q := q' }, prev := after }, "ok")
          else ({ d1 with ps := { d.ps with q := { q' with msgs := after } }, prev := after }, s!"DIVERGE qstep {tag} op={opKind op}")
        | none => ({ d1 with ps := { d.ps with q := { d.ps.q with msgs := after } }, prev := after }, s!"DIVERGE qstep {tag} field=choice op={opKind op}")
      | _, _ => ({ d1 with ps := { d.ps with q := { d.ps.q with msgs := after } }, prev := after }, s!"DIVERGE qstep {tag} field=decode")
    | "pstep" =>
      let tag := s!"trace={d.trace} step={d.stepNo}"
      let now := int j "now"
      let after := sortMsgs ((arr j "after").map msgOfJson)
      let rj := obj j "resp"
      let status := nat rj "status"; let succeeded := nat rj "succeeded"; let calls := nat rj "storeCalls"
      let conflicts := conflictsOfJson rj
      let picks := (arr rj "picks").map fun p => match asArr p with | [a, b] => (asStr a, asStr b) | _ => ("", "")
      let cache := cacheOfJson j
      let d1 := { d with stepNo := d.stepNo + 1, prev := after }
      match popOfJson (obj j "op") with
      | none => (d1, s!"DIVERGE pstep {tag} field=decode")
      | some op =>
        -- ---- property predicates on the implementation's own record
        let before := d.prev
        let unchanged := after == before
        let prop : Option String :=
          match op with
          | .ackSingle l0 | .nackSingle l0 _ _ _ =>
            let l := trimWS l0
            let key := match op with | .ackSingle _ => "ack" | _ => "nack"
            if status == 204 && calls == 0 && !justified d.pc d.wins now l key then
              some s!"C04 stale-{key}-answered-success-without-an-earlier-success lease={l.quote}"
            else if status == 204 && calls > 0 && !heldLive before now l then
              some s!"C04 {key}-succeeded-on-a-lease-that-is-not-current lease={l.quote}"
            else if calls == 0 && !unchanged then some s!"C04 answer-from-idempotency-cache-changed-the-queue"
            else if status != 204 && !(after.all fun m => before.any fun b => b == m || (b.id == m.id && b.st == .leased && m.st == .queued)) then
              some s!"C04 refused-{key}-changed-the-queue"
            else
              -- C05: after a nack with delay d the message is offered from now + d, never earlier
              match op with
              | .nackSingle _ dead _ delay =>
                if status == 204 && calls > 0 && !dead then
                  match before.find? (fun m => m.st == .leased && m.lease == l) with
                  | some b =>
                    match after.find? (fun m => m.id == b.id) with
                    | some m => if m.st == .queued && m.next < now + max delay 0 then
                        some s!"C05 nacked-message-visible-earlier-than-its-delay id={m.id} delay={delay} next-now={m.next - now}"
                      else none
                    | none => none
                  | none => none
                else none
              | _ => none
          | .extend l0 by_ =>
            let l := trimWS l0
            if status == 204 && by_ > 0 && !heldLive before now l then some s!"C04 extend-succeeded-on-a-lease-that-is-not-current lease={l.quote}"
            else if status == 204 && by_ > 0 then
              -- C03: an accepted extend moves the end of the lease by exactly what was accepted (the lease then "ends by
              -- expiry" at that instant, not earlier)
              match before.find? (fun m => m.st == .leased && m.lease == l) with
              | some b =>
                match after.find? (fun m => m.id == b.id) with
                | some m => if m.st == .leased && m.lease == l && m.luntil < b.luntil + by_ then
                    some s!"C03,C05 extended-lease-ends-earlier-than-accepted id={m.id} extend-by={by_} moved-by={m.luntil - b.luntil}"
                  else none
                | none => none
              | none => none
            else none
          | .ackBatch ls | .nackBatch ls _ _ _ =>
            let key := match op with | .ackBatch _ => "ack" | _ => "nack"
            let ok := ls.filter fun l0 => justified d.pc d.wins now (trimWS l0) key || heldLive before now (trimWS l0)
            -- distinct live leases can succeed once each; cache-justified ids count every time they are presented
            if succeeded > ok.length then
              some s!"C04 batch-{key}-counts-more-successes-than-presented-current-or-already-settled-leases succeeded={succeeded} entitled={ok.length}"
            else if calls == 0 && !unchanged then some "C04 answer-from-idempotency-cache-changed-the-queue"
            else none
          | .dequeue _ batch _ =>
            let b : Int := if batch ≤ 0 then 1 else batch
            let cap : Int := if d.pc.maxBatch > 0 && b > d.pc.maxBatch then d.pc.maxBatch else b
            if (picks.length : Int) > cap then some s!"C05 dequeue-returned-more-than-the-capped-batch got={picks.length} cap={cap}"
            else
              -- C03: every lease handed out runs for the TTL the API accepted — what the caller asked for, capped at the
              -- configured maximum, or the configured default — so that nobody else is offered the message before
              -- (a requested TTL that is not positive is left to the correspondence: the property says nothing about it)
              let asked : Int := match op with | .dequeue _ _ (some t) => t | _ => d.pc.defaultTTL
              let eff : Int := if d.pc.maxTTL > 0 && asked > d.pc.maxTTL then d.pc.maxTTL else asked
              if asked ≤ 0 then none else
              match picks.find? (fun p => match after.find? (fun m => m.id == p.1) with
                                         | some m => m.luntil != now + eff | none => false) with
              | some p => some s!"C03,C05 lease-does-not-run-for-the-accepted-ttl id={p.1} accepted={eff} runs={((after.find? (fun m => m.id == p.1)).map (·.luntil)).getD 0 - now}"
              | none => none
        -- genuine successes of this step (the store accepted them)
        let wins' :=
          match op with
          | .ackSingle l0 => if status == 204 && calls > 0 then d.wins ++ [(trimWS l0, "ack", now)] else d.wins
          | .nackSingle l0 _ _ _ => if status == 204 && calls > 0 then d.wins ++ [(trimWS l0, "nack", now)] else d.wins
          | .ackBatch ls => d.wins ++ ((ls.map trimWS).eraseDups.filter fun l => calls > 0 && heldLive before now l && !conflicts.any (·.lease == l)).map (·, "ack", now)
          | .nackBatch ls _ _ _ => d.wins ++ ((ls.map trimWS).eraseDups.filter fun l => calls > 0 && heldLive before now l && !conflicts.any (·.lease == l)).map (·, "nack", now)
          | _ => d.wins
        let d1 := { d1 with wins := wins' }
        -- ---- the model
        let gone := (before.filter (fun m => !after.any (·.id == m.id))).map (·.id)
        let ch : Choice := { picks := picks, gone := gone, refusal := none }
        match pstep d.cfg d.pc now d.ps op ch with
        | none =>
          let d2 := { d1 with ps := { q := { d.ps.q with msgs := after, issued := d.ps.q.issued ++ picks.map (·.2) }, cache := cache } }
          (d2, match prop with | some p => s!"PROP {p} {tag}" | none => s!"DIVERGE pstep {tag} field=choice")
        | some (ps', r) =>
          let same := r.status == status && r.succeeded == succeeded && sortConflicts r.conflicts == conflicts && r.storeCalls == calls &&
            sortMsgs ps'.q.msgs == after && ps'.cache == cache
          let d2 := { d1 with ps := { q := { ps'.q with msgs := after }, cache := cache } }
          let http := nat j "http"
          match prop with
          | some p => (d2, s!"PROP {p} {tag}")
          | none =>
            if http != 0 && status == 200 && (http == 409) != !conflicts.isEmpty then
              (d2, s!"PROP C04 batch-conflict-not-reported-as-409 http={http} conflicts={conflicts.length} {tag}")
            else if same then (d2, "ok")
            else
              let what := if r.status != status then s!"status model={r.status} impl={status}"
                else if r.succeeded != succeeded then s!"succeeded model={r.succeeded} impl={succeeded}"
                else if sortConflicts r.conflicts != conflicts then "conflicts"
                else if r.storeCalls != calls then s!"storeCalls model={r.storeCalls} impl={calls}"
                else if sortMsgs ps'.q.msgs != after then s!"state {firstDiff (sortMsgs ps'.q.msgs) after}"
                else s!"cache model={ps'.cache} impl={cache}"
              (d2, s!"DIVERGE pstep {tag} {what}")
    | "pbad" =>
      let after := sortMsgs ((arr j "after").map msgOfJson)
      let d1 := { d with stepNo := d.stepNo + 1, prev := after }
      if nat j "http" != 400 || nat j "storeCalls" != 0 || after != d.prev then
        (d1, s!"PROP C04 batch-without-a-usable-lease-id-was-not-refused-inertly trace={d.trace} step={d.stepNo} http={nat j "http"}")
      else (d1, "ok")
    | "maxbatch" =>
      let cmax := nat j "compiledMax"; let ready := nat j "ready"; let got := nat j "got"
      let b := if int j "batch" ≤ 0 then 1 else (int j "batch").toNat
      let want := min (if cmax > 0 then min b cmax else b) ready
      if nat j "status" != 200 then (d, s!"DIVERGE maxbatch configured={nat j "configured"}")
      else if got != want then
        (d, s!"PROP C05 dequeue-count-is-not-min-of-capped-batch-and-ready configured_max={nat j "configured"} effective_max={cmax} batch={int j "batch"} ready={ready} got={got} want={want}")
      else (d, "ok")
    | _ => (d, "ok")

end Hk.DrivePull
