import HkModel.Drive.Json
import HkModel.Model.Mcp
/-! driver mode `mcp`: the complete gating table against the real server -/
namespace Hk.DriveMcp
open Lean Hk.J Hk.Mcp

def processLine (line : String) : String :=
  match Json.parse line with
  | .error e => s!"BADLINE {e}"
  | .ok j =>
    let tag := line.trimAscii.toString
    let role := (Role.ofString? (str j "role")).getD .read
    let mu := bool j "mut"; let rt := bool j "rt"; let p := bool j "principal"
    match str j "k" with
    | "list" =>
      let got := strs j "tools"
      let exp := listed role mu rt p
      if got == exp then "ok"
      else if got.any (fun t => !allowed t role mu rt p) then s!"PROP C20 list-advertises-denied-tool in={tag}"
      else s!"PROP C20 list-differs-from-allowed in={tag} expected={exp}"
    | "call" =>
      let t := str j "tool"
      let ok := allowed t role mu rt p
      let isErr := bool j "isError" || bool j "rpcError"
      let audits := arr j "audit"
      let effect := bool j "cfgChanged" || bool j "dbChanged" || bool j "foreignChanged" || bool j "pidFileExists"
      let variant := str j "variant"
      let expAudit := if mutating t then 1 else 0
      let auditOK := audits.length == expAudit &&
        audits.all (fun a => nat a "fields" == 7 && str a "tool" == t && str a "role" == str j "role")
      if !(strs j "strays").isEmpty then s!"PROP C20,C18 tool-left-a-file-other-than-the-configured-path strays={strs j "strays"} in={tag}"
      else if !ok then
        if !isErr then s!"PROP C20 denied-tool-ran in={tag}"
        else if effect then s!"PROP C20 denied-tool-had-effect in={tag}"
        else if !auditOK || audits.any (fun a => str a "result" != "denied") then s!"PROP C20 denied-call-audit in={tag}"
        else "ok"
      else
        -- allowed: every outcome of a mutating call is audited exactly once with the seven fields
        if !auditOK then s!"PROP C20 audit-record-missing-or-malformed in={tag}"
        else if audits.any (fun a => str a "result" != (if isErr then "error" else "success")) then s!"PROP C20 audit-result-wrong in={tag}"
        else if bool j "foreignChanged" then s!"PROP C20 wrote-outside-configured-path in={tag}"
        else if (variant == "hostile-path" || variant == "symlink-dotdot-path") && (mcpPathTools.contains t) && !isErr then
          s!"PROP C20 path-other-than-configured-accepted in={tag}"
        else if variant.startsWith "actor-" && mutating t && p && (!isErr || effect) then s!"PROP C20 actor-not-bound-to-principal in={tag}"
        else if isErr && effect then s!"PROP C20 failed-call-had-effect in={tag}"
        else "ok"
    | _ => "ok"
where
  mcpPathTools : List String := ["config_parse", "config_validate", "config_compile", "config_fmt_preview", "config_diff",
    "config_apply", "management_endpoint_upsert", "management_endpoint_delete"]

end Hk.DriveMcp
