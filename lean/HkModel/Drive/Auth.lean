import HkModel.Drive.Json
import HkModel.Model.IngressAuth
import HkModel.Model.IngressReload
/-! driver mode `auth`: authentication sequences (stateful: nonce cache, history of accepted nonces) -/
namespace Hk.DriveAuth
open Lean Hk.J Hk.IngressAuth

structure AState where
  cfg : HmacCfg := {}
  users : List (String × String) := []
  auth : AuthState := { tol := 0 }             -- what survives reloads: tolerance in force, nonce cache, floor
  accepted : List (String × Int × Int) := []   -- (nonce, signed time, window end) of every accepted request; the window
                                               -- end is signed time + tolerance, moved out by a reload that raises the
                                               -- tolerance while the window is still open
  acceptedRaw : List String := []               -- every accepted signed request, verbatim (headers, method, path, body)
  targets : Nat := 1                            -- messages one accepted request on the hmac route stands for
  n : Nat := 0
  bad : Nat := 0

def bytesOfHex (s : String) : Bytes := (Sha256.fromHex s).getD []

def versionOf (j : Json) : Version :=
  { id := str j "id", value := bytesOfHex (str j "value"), from_ := int j "from",
    until_ := if (obj j "until").isNull then none else some (int j "until") }

def cfgOf (j : Json) : HmacCfg :=
  { sigHeader := str j "sigHeader", tsHeader := str j "tsHeader", nonceHeader := str j "nonceHeader", tol := int j "tol",
    direct := (strs j "direct").map bytesOfHex, versions := (arr j "versions").map versionOf }

def step (st : AState) (line : String) : AState × String :=
  match Json.parse line with
  | .error e => (st, s!"BADLINE {e}")
  | .ok j =>
    let tag := line.trimAscii.toString
    match str j "k" with
    | "acfg" =>
      ({ st with cfg := cfgOf (obj j "hmac"), auth := { tol := (cfgOf (obj j "hmac")).tol }, accepted := [], acceptedRaw := [],
                 targets := if has j "targets" then nat j "targets" else 1,
                 users := (arr j "users").map (fun p => match asArr p with | [a, b] => (asStr a, asStr b) | _ => ("", "")) }, "ok")
    | "areload" =>
      -- the authenticator's nonce cache survives a reload; a longer tolerance extends the remembered windows and sets the
      -- floor below which signed times stay refused (`reloadR`)
      let tol' := if has j "tol" then int j "tol" else st.cfg.tol
      let delta := if tol' > st.cfg.tol then tol' - st.cfg.tol else 0
      let now := int j "now"
      -- secrets are loaded again by every successful reload: what a file: reference holds now is what counts
      let direct' := if has j "direct" && bool j "ok" then (strs j "direct").map bytesOfHex else st.cfg.direct
      ({ st with cfg := { st.cfg with tol := tol', direct := direct' }, auth := reloadR st.auth now tol',
                 accepted := st.accepted.map (fun (n, t0, e) => (n, t0, if now ≤ e then e + delta else e)) }, "ok")
    | "areq" =>
      let now := int j "now"
      let status := nat j "status"
      let enq := nat j "enqueued"
      match str j "kind" with
      | "hmac" =>
        let rq : HReq := { sig := str j "sig", ts := str j "ts", nonce := str j "nonce", method := str j "method",
                           path := str j "path", body := bytesOfHex (str j "body") }
        let (auth', ok) := verifyR Sha256.hmac st.cfg st.auth now rq
        let tOK := timeOK st.cfg now rq
        let condOK := match tOK with | some t => sigOK Sha256.hmac st.cfg t rq | none => false
        let nonce := Hk.Egress.trimWS rq.nonce
        -- a request with this nonce was accepted before and its signed time still passes the (current) tolerance
        let replay := st.accepted.any (fun (n, _, e) => n == nonce && decide (now ≤ e))
        -- the window had closed under the tolerance in force when the request was accepted, and a reload that RAISED the
        -- tolerance lets the very same signed time pass again: the captured request (same nonce, same signed time) must
        -- stay refused (the nonce itself is only owed a rejection while its window has been open *continuously*)
        let reopened := !replay && st.accepted.any (fun (n, t0, e) => n == nonce && some t0 == tOK && decide (now > e) && decide (now ≤ t0 + st.cfg.tol))
        -- "a captured valid request can never cause a second enqueue": the very same request accepted again, whatever the
        -- instant (inside its window the nonce stops it, outside the tolerance check does)
        let raw := s!"{rq.sig}|{rq.ts}|{rq.nonce}|{rq.method}|{rq.path}|{str j "body"}"
        let twice := st.acceptedRaw.contains raw
        -- the request got past authentication: answered 202, or 503 because the harness made the store refuse a message of
        -- the fan-out (the nonce is spent either way)
        let storeFail := bool j "storeFail"
        let reached := status == 202 || (storeFail && status == 503)
        let st' := { st with auth := auth',
                             acceptedRaw := if reached && !twice then raw :: st.acceptedRaw else st.acceptedRaw,
                             accepted := if reached then (nonce, tOK.getD 0, tOK.getD 0 + st.cfg.tol) :: st.accepted else st.accepted }
        if reached && !condOK && !twice then (st', s!"PROP C08,C17 accepted-without-valid-hmac in={tag}")
        else if reached && replay then (st', s!"PROP C09 replay-accepted in={tag}")
        else if reached && reopened then (st', s!"PROP C09 replay-accepted-after-tolerance-raised-by-reload in={tag}")
        else if reached && twice then (st', s!"PROP C09,C08 captured-request-enqueued-twice in={tag}")
        else if !reached && enq != 0 then (st', s!"PROP C08 denied-request-had-effect in={tag}")
        else if status == 202 && enq != st.targets then (st', s!"DIVERGE enqueue-count in={tag} targets={st.targets}")
        else if storeFail && status == 503 && enq != 1 then (st', s!"DIVERGE enqueue-count-after-injected-store-refusal in={tag}")
        else if ok && status == 401 then
          -- fail-closed, so no C08 violation; but a request valid under a secret valid at its signed time was rejected
          (st', s!"PROP C17 valid-request-rejected in={tag}")
        else if ok != reached then (st', s!"DIVERGE hmac in={tag} model={ok} status={status}")
        else (st', "ok")
      | "basic" =>
        let c := obj j "cred"
        let cred : Option (String × String) := if c.isNull then none else match asArr c with
          | [a, b] => some (asStr a, asStr b) | _ => none
        let ok := basicVerify st.users cred
        if status == 202 && !ok then (st, s!"PROP C08 accepted-without-valid-basic in={tag}")
        else if status != 202 && enq != 0 then (st, s!"PROP C08 denied-request-had-effect in={tag}")
        else if ok != (status == 202) then (st, s!"DIVERGE basic in={tag} model={ok}")
        else if status == 202 && enq != 2 then (st, s!"DIVERGE enqueue-count in={tag}")
        else (st, "ok")
      | "forward" =>
        let o : FwdOutcome := match (obj j "fwd").getNat? with | .ok n => .status n | _ => .failed
        let d := forwardDecide o
        let exp := if d == 0 then 202 else d
        if status == 202 && d != 0 then (st, s!"PROP C08 accepted-without-forward-auth in={tag}")
        else if status != 202 && enq != 0 then (st, s!"PROP C08 denied-request-had-effect in={tag}")
        else if status != exp then (st, s!"PROP C08 forward-status in={tag} expected={exp}")
        else (st, "ok")
      | _ => if status == 202 && enq == 1 then (st, "ok") else (st, s!"DIVERGE open in={tag}")
    | _ => (st, "ok")

end Hk.DriveAuth
