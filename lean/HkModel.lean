import HkModel.Model.Queue
import HkModel.Obs.Queue
import HkModel.Props.Queue
import HkModel.Props.C06
import HkModel.Props.C16
import HkModel.Props.C10
import HkModel.Props.C08
import HkModel.Props.C17
