import HkModel.Model.Queue
import HkModel.Obs.Queue
